"""Contracts for name invention (C05): ElabPass.flatname and the pass-internal insertion sites in portrefs.py."""
import z3
from pyvc import *
from .common import *
from . import c_elab
from hdl21.module import Module
from hdl21.instance import Instance, InstanceArray, InstanceBundle
from hdl21.bundle import BundleInstance
from hdl21.noconn import NoConn
from hdl21.elab.passes.base import ElabPass
from hdl21.elab.passes.portrefs import ResolvePortRefs

US = z3.Star(z3.Re("_"))


def underscores_after(base, name):
    """name == base + '_'*k for some k >= 0"""
    lb, ln = z3.Length(base), z3.Length(name)
    return z3.And(z3.PrefixOf(base, name), z3.InRe(z3.SubString(name, lb, ln - lb), US))


def joined(segs):
    acc = zstr(segs[0])
    for s in segs[1:]:
        acc = z3.Concat(acc, z3.StringVal("_"), zstr(s))
    return acc


class Flatname(Contract):
    """flatname(segments, avoid, maxlen): returns "_".join(segments) followed by zero or more underscores, not a key of
    `avoid`, at most maxlen long; raises RuntimeError (through fail) when no such name exists within maxlen."""
    key = "hdl21.elab.passes.base:ElabPass.flatname"
    props = ("C05",)
    raises = (RuntimeError,)
    returns = "str"

    def scenarios(self, eng):
        for n in (1, 2, 3):
            def setup(eng, st, n=n):
                me = sym_ref(st, "self", (ElabPass,))
                owner = sym_ref(st, "m", (Module,))
                segs = [SStr(z3.String(f"seg{k}")) for k in range(n)]
                maxlen = SInt(z3.Int("maxlen"))
                return {"self": me, "segments": segs, "avoid": SLoc(owner.z, "namespace", "map[str,ref]"),
                        "maxlen": maxlen}
            yield Scenario(f"{n}-segments", setup)

    def _base(self, a):
        segs = a.segments
        if isinstance(segs, (list, tuple)) and all(isinstance(s, (str, SStr)) for s in segs) and segs:
            return joined(segs)
        return None

    def p_fresh(self, eng, st0, st, a, res):
        c = []
        if isinstance(a.avoid, SLoc):
            c.append(z3.Select(st0.heap.get(a.avoid.field, a.avoid.owner), res.z) == NULL)
        if isinstance(a.maxlen, (int, SInt)):
            c.append(z3.Length(res.z) <= zint(a.maxlen))
        base = self._base(a)
        if base is not None:
            c.append(underscores_after(base, res.z))
        return z3.And(c) if c else True
    posts = property(lambda self: [("fresh-name", self.p_fresh)])


def _flat_inv(eng, st_entry, st_now):
    base = joined(st_now.locals["segments"])
    name = zstr(st_now.locals["name"])
    return underscores_after(base, name)


def _flat_dec(eng, st):
    return SInt(zint(st.locals["maxlen"]) + 1 - z3.Length(zstr(st.locals["name"])))


FLAT_LOOP = LoopSpec(_flat_inv, modifies=(), locals_mod=("name",))
FLAT_LOOP.decreases = _flat_dec
LOOPS = {("hdl21.elab.passes.base:ElabPass.flatname", 0): FLAT_LOOP}

CONTRACTS = [Flatname(), c_elab.Fail()]
VERIFY = [CONTRACTS[0]]


# ------------------------------------------------------------------------------------------------ insertion sites
from hdl21.primitives import PrimitiveCall
from hdl21.external_module import ExternalModuleCall
from hdl21.instance import _Instance

SITE_FIELD_CLASSES = {"inst": (Instance, InstanceArray, InstanceBundle), "of": (Module, PrimitiveCall, ExternalModuleCall),
                      "$map[str,ref][]": (Signal, BundleInstance), "_parent_module": (Module,)}


class InternalAdd(Contract):
    """Module.add as used from inside elaboration passes: the stronger precondition of C05 -
    the name being inserted is not present in the module's namespace (so nothing is replaced or shadowed)."""
    key = "hdl21.module:Module.add"
    props = ("C05",)
    pure = False
    raises = (RuntimeError, TypeError)
    returns = "ref"
    result_classes = (Signal, BundleInstance, Instance)

    def scenarios(self, eng):
        return []

    def pre(self, eng, st, a):
        ns = st.heap.get("namespace", a.self.z)
        if a.name is not None:
            return z3.Select(ns, zstr(a.name)) == NULL
        return z3.And(z3.Not(st.heap.get("name$none", a.val.z)),
                      z3.Select(ns, st.heap.get("name", a.val.z)) == NULL)

    def frame(self, eng, st, a):
        for f in ("namespace", "ports", "signals", "instances", "instarrays", "instbundles", "bundles",
                  "_parent_module"):
            st.heap.havoc_field(f)

    def p_ns(self, eng, st0, st, a, res):
        m, v = a.self.z, a.val.z
        name = zstr(a.name) if a.name is not None else st0.heap.get("name", v)
        ns0, ns1 = st0.heap.arr("namespace"), st.heap.arr("namespace")
        return z3.And(res.z == v, ns1 == z3.Store(ns0, m, z3.Store(ns0[m], name, v)))
    posts = property(lambda self: [("namespace", self.p_ns)])


class ConnectLite(Contract):
    key = "hdl21.instance:_Instance.connect"
    pure = False
    raises = (TypeError,)
    returns = "opaque"

    def scenarios(self, eng):
        return []

    def frame(self, eng, st, a):
        for f in ("conns", "_connected_ports", "all", "portrefs", "connrefs"):
            st.heap.havoc_field(f)


class IoForResolving(Contract):
    key = "hdl21.elab.passes.portrefs:io_for_resolving"
    raises = (TypeError,)

    def scenarios(self, eng):
        return []

    def make_result(self, eng, st, a):
        loc = st.alloc_container("map[str,ref]")
        st.heap.put(loc.field, loc.owner, fresh("io", kind_sort("map[str,ref]")))
        return loc


class CopyPort(Contract):
    key = "hdl21.elab.passes.portrefs:ResolvePortRefs.copy_port"
    pure = False
    raises = (RuntimeError,)

    def scenarios(self, eng):
        return []

    def frame(self, eng, st, a):
        pass

    def apply(self, eng, st, args, kwargs, node=None):
        """copy of a Signal port is a fresh Signal, of a bundle port a fresh BundleInstance; anything else fails"""
        port = args[1] if len(args) > 1 else kwargs["port"]
        out = []
        for s2, classes, kind in eng.split_classes(st, port, lambda c: "sig" if issubclass(c, Signal) else
                                                   ("bun" if issubclass(c, BundleInstance) else "bad"), "copy_port"):
            if kind == "bad":
                out.append((s2, Exc(RuntimeError, "copy_port of non-port")))
                continue
            r = s2.alloc(Signal if kind == "sig" else BundleInstance)
            s2.heap.put("_initialized", r.z, z3.BoolVal(True))
            if kind == "sig":
                s2.heap.put("width", r.z, s2.heap.get("width", port.z))
            out.append((s2, r))
        return out


class WhichPortref(Contract):
    key = "hdl21.elab.passes.portrefs:ResolvePortRefs.which_portref_to_name"
    raises = (RuntimeError, TypeError)
    returns = "ref"
    result_classes = (PortRef,)

    def scenarios(self, eng):
        return []

    def posts_(self, eng, st0, st, a, res):
        inst = st.heap.get("inst", res.z)
        return z3.And(inst != NULL, st.heap.get("$alive", inst), st.heap.get("_initialized", inst),
                      z3.Or([st.heap.get("$cls", inst) == st.classid(k) for k in SITE_FIELD_CLASSES["inst"]]))
    posts = property(lambda self: [("a-live-portref", self.posts_)])


class Site(Contract):
    """create_source / replace_noconn: every name they insert is absent from the module namespace at the insertion
    (call-site obligation of InternalAdd), and they do not touch the namespace otherwise."""
    pure = False
    raises = (RuntimeError, TypeError, ValueError)
    props = ("C05",)

    def __init__(self, name, mk):
        self.key = f"hdl21.elab.passes.portrefs:ResolvePortRefs.{name}"
        self.mk = mk

    def scenarios(self, eng):
        def setup(eng, st):
            eng.field_classes.update(SITE_FIELD_CLASSES)
            me = sym_ref(st, "self", (ResolvePortRefs,))
            module = sym_ref(st, "module", (Module,))
            st.assume(st.heap.get("_initialized", module.z))
            return self.mk(eng, st, me, module)
        yield Scenario("any", setup)

    def p_only_adds(self, eng, st0, st, a, res):
        """designer names keep their objects: the namespace changes at one fresh key only"""
        m = a.module.z
        ns0, ns1 = st0.heap.get("namespace", m), st.heap.get("namespace", m)
        k = z3.String("qk")
        return z3.ForAll([k], z3.Implies(z3.Select(ns0, k) != NULL, z3.Select(ns1, k) == z3.Select(ns0, k)))
    posts = property(lambda self: [("designer-names-kept", self.p_only_adds)])


def _mk_noconn(eng, st, me, module):
    pref = sym_ref(st, "portref", (PortRef,))
    inst = st.heap.get("inst", pref.z)
    st.assume(z3.And(inst != NULL, st.heap.get("$alive", inst), st.heap.get("_initialized", inst)))
    st.assume(z3.Or([st.heap.get("$cls", inst) == st.classid(k) for k in SITE_FIELD_CLASSES["inst"]]))
    of = st.heap.get("of", inst)
    st.assume(z3.And(of != NULL, st.heap.get("$alive", of)))
    st.assume(z3.Or([st.heap.get("$cls", of) == st.classid(k) for k in SITE_FIELD_CLASSES["of"]]))
    nc = sym_ref(st, "noconn", (NoConn,))
    return {"self": me, "module": module, "portref": pref, "noconn": nc}


def _mk_source(eng, st, me, module):
    p0 = sym_ref(st, "p0", (PortRef,))
    return {"self": me, "module": module, "group": [p0]}


SITE_CONTRACTS = [Flatname(), c_elab.Fail(), InternalAdd(), ConnectLite(), IoForResolving(), CopyPort(), WhichPortref()]
SITES = [Site("replace_noconn", _mk_noconn), Site("create_source", _mk_source)]


# ------------------------------------------------------------------------------------------------ loop insertion sites
# arrays.py, flatten_bundles.py, inst_bundles.py insert invented names inside loops / comprehensions.  The loop body (or the
# comprehension's element expression) is located in the AST of the current source and executed symbolically from an
# ARBITRARY state (any namespace content, any iteration), with Flatname / InternalAdd applied at their call sites:
#   pre@callsite/Module.add   the name being inserted is absent from the namespace at the moment of insertion
#   designer-names-kept       every key present before still maps to the same object afterwards
# Holding for one arbitrary iteration from an arbitrary state, they hold for every iteration of every run.
import ast as _ast
from hdl21.elab.passes.arrays import ArrayFlattener
from hdl21.elab.passes.flatten_bundles import BundleFlattener, Path as _BPath
from hdl21.elab.passes.inst_bundles import InstBundleElabPass


class PathToName(Contract):
    key = "hdl21.elab.passes.flatten_bundles:Path.to_name"
    returns = "str"

    def scenarios(self, eng):
        return []


class InstanceCtor(Contract):
    """Instance(of=..., name=...): a new Instance carrying that name (establishment proved under C04)."""
    key = "hdl21.instance:Instance"
    pure = False

    def scenarios(self, eng):
        return []

    def apply(self, eng, st, args, kwargs, node=None):
        r = st.alloc(Instance)
        st.heap.put("_initialized", r.z, z3.BoolVal(True))
        nm = kwargs.get("name")
        if nm is None:
            st.heap.put("name$none", r.z, z3.BoolVal(True))
        else:
            st.heap.put("name$none", r.z, z3.BoolVal(False))
            st.heap.put("name", r.z, zstr(nm))
        if isinstance(kwargs.get("of"), SRef):
            st.heap.put("of", r.z, kwargs["of"].z)
        return [(st, r)]


def _has_add(node):
    return any(isinstance(n, _ast.Call) and isinstance(n.func, _ast.Attribute) and n.func.attr == "add"
               and isinstance(n.func.value, _ast.Name) and n.func.value.id == "module" for n in _ast.walk(node))


def _named(st, ref):
    st.assume(z3.Not(st.heap.get("name$none", ref.z)))
    return ref


def _site_arrays(eng, st, me, module):
    arr = _named(st, sym_ref(st, "array", (InstanceArray,)))
    return {"array": arr, "k": SInt(z3.Int("k")), "target": sym_ref(st, "target", (Module,)), "new_insts": [],
            "name": SStr(z3.String("stale_name"))}


def _site_bundles(eng, st, me, module):
    bi = _named(st, sym_ref(st, "bundle_inst", (BundleInstance,)))
    return {"bundle_inst": bi, "pathstr": sym_ref(st, "pathstr", (_BPath,)), "sig": sym_ref(st, "sig", (Signal,)),
            "flat": Opaque("flat")}


def _site_instbundles(eng, st, me, module):
    ib = _named(st, sym_ref(st, "instbundle", (InstanceBundle,)))
    of = st.heap.get("of", ib.z)
    st.assume(z3.And(of != NULL, st.heap.get("$alive", of)))
    st.assume(z3.Or([st.heap.get("$cls", of) == st.classid(k) for k in SITE_FIELD_CLASSES["of"]]))
    return {"instbundle": ib, "signame": SStr(z3.String("signame"))}


LOOP_SITES = [
    ("hdl21.elab.passes.arrays:ArrayFlattener.elaborate_module", ArrayFlattener, _site_arrays),
    ("hdl21.elab.passes.flatten_bundles:BundleFlattener.replace_bundle_inst", BundleFlattener, _site_bundles),
    ("hdl21.elab.passes.inst_bundles:InstBundleElabPass.elaborate_instance_bundle", InstBundleElabPass, _site_instbundles),
]


@guarded("list")
def loop_site_obligations():
    """-> [(function key, obligations, info)]"""
    from pyvc import loader
    from pyvc.engine import Frame
    out = []
    for key, cls, mk in LOOP_SITES:
        ext = loader.extract(key)
        info = {"sha": ext.sha, "lines": ext.lines, "path": ext.path, "paths": 0, "scenarios": 0, "unsupported": []}
        obs = []
        regions = []
        for n in _ast.walk(ext.node):
            if isinstance(n, (_ast.For, _ast.While)) and _has_add(n) and \
                    not any(isinstance(c, (_ast.For, _ast.While)) and _has_add(c) for b in n.body for c in _ast.walk(b)):
                regions.append(("loop", n))
            elif isinstance(n, (_ast.DictComp, _ast.ListComp, _ast.SetComp, _ast.GeneratorExp)) and _has_add(n):
                regions.append(("comp", n))
        if not regions:
            info["unsupported"].append("no insertion loop found (the function no longer inserts in a loop?)")
        for ri, (kind, node) in enumerate(regions):
            eng = mk_engine(contracts=[Flatname(), c_elab.Fail(), InternalAdd(), PathToName(), InstanceCtor()],
                            field_classes=SITE_FIELD_CLASSES)
            st = eng.new_state()
            me = sym_ref(st, "self", (cls,))
            module = sym_ref(st, "module", (Module,))
            st.assume(st.heap.get("_initialized", module.z))
            st.locals = {"self": me, "module": module}
            st.locals.update(mk(eng, st, me, module))
            st0 = st.fork()
            eng.frames.append(Frame(ext, ext.key))
            eng.cuts = []
            try:
                if kind == "loop":
                    outs = eng.exec_block(node.body, st)
                else:
                    val = node.value if isinstance(node, _ast.DictComp) else node.elt
                    outs = [("ok" if not isinstance(v, Exc) else "exc", s2, v) for s2, v in eng.ev(val, st)]
            except Unsupported as e:
                info["unsupported"].append(f"insertion region at line {node.lineno}: {e}")
                continue
            finally:
                eng.frames.pop()
            info["scenarios"] += 1
            ns0 = st0.heap.get("namespace", module.z)
            for pi, (k2, s2, v) in enumerate(outs):
                info["paths"] += 1
                pname = f"{key}/insertion@{node.lineno - ext.node.lineno}/p{pi}"
                for (oname, opc, goal) in s2.obligations:
                    obs.append(Obligation(f"{pname}/{oname.split('/')[0]}/{oname.split('/')[1].split(':')[-1]}",
                                          "callsite", opc, zbool(goal), key, f"insertion-{ri}", pi,
                                          {"trace": list(s2.trace)}))
                if k2 == "exc" and v.cls in (NameError, UnboundLocalError):
                    info["unsupported"].append(f"insertion region at line {node.lineno} reads a local defined outside it "
                                               f"({v.note}): the argument per element no longer applies")
                    continue
                if k2 == "exc":
                    continue      # raising (flatname exhausted, type errors) is an allowed way out
                adds = [c for c in s2.calls if c[0] == InternalAdd.key]
                obs.append(Obligation(f"{pname}/inserts-through-Module.add", "post", list(s2.pc),
                                      z3.BoolVal(len(adds) >= 1), key, f"insertion-{ri}", pi))
                q = z3.String("qk")
                ns1 = s2.heap.get("namespace", module.z)
                obs.append(Obligation(f"{pname}/post.designer-names-kept", "post", list(s2.pc),
                                      z3.ForAll([q], z3.Implies(z3.Select(ns0, q) != NULL,
                                                                z3.Select(ns1, q) == z3.Select(ns0, q))),
                                      key, f"insertion-{ri}", pi))
        out.append((key, obs, info))
    return out


# ------------------------------------------------------------------------------------------------ copy_port
class CopyPortProved(Contract):
    """copy_port(port): a Signal port -> a NEW internal, undirected Signal of the same width (the port itself untouched);
    a bundle port -> a new non-port bundle instance of the same bundle type without a role; anything else is refused."""
    key = "hdl21.elab.passes.portrefs:ResolvePortRefs.copy_port"
    props = ("C05", "C01")
    pure = False
    raises = (RuntimeError,)
    returns = "ref"

    def scenarios(self, eng):
        from hdl21.bundle import Bundle

        def sig(eng, st):
            p = sym_ref(st, "port", (Signal,))
            st.assume(st.heap.get("width", p.z) >= 1)        # type invariant of Signal (its constructor refuses width < 1)
            return {"self": sym_ref(st, "self", (ResolvePortRefs,)), "port": p}
        yield Scenario("signal-port", sig)

        def bun(eng, st):
            eng.field_classes["of"] = (Bundle,)
            p = sym_ref(st, "port", (BundleInstance,))
            of = st.heap.get("of", p.z)
            st.assume(z3.And(of != NULL, st.heap.get("$alive", of), st.heap.get("$cls", of) == st.classid(Bundle)))
            return {"self": sym_ref(st, "self", (ResolvePortRefs,)), "port": p}
        yield Scenario("bundle-port", bun)

        def bad(eng, st):
            return {"self": sym_ref(st, "self", (ResolvePortRefs,)), "port": sym_ref(st, "port", (Instance, NoConn))}
        s = Scenario("not-a-port", bad)
        s.expect_raise = True
        yield s

    def p_copy(self, eng, st0, st, a, res):
        if not isinstance(res, SRef):
            return False
        vis_i = list(Visibility).index(Visibility.INTERNAL)
        dir_n = list(PortDir).index(PortDir.NONE)
        fresh_ = z3.And(res.z != a.port.z, z3.Not(st0.heap.get("$alive", res.z)))
        if issubclass(eng.classes_of(st0, a.port)[0], Signal):
            untouched = z3.And(st.heap.get("vis", a.port.z) == st0.heap.get("vis", a.port.z),
                               st.heap.get("direction", a.port.z) == st0.heap.get("direction", a.port.z))
            return z3.And(fresh_, st.heap.get("$cls", res.z) == st.classid(Signal),
                          st.heap.get("width", res.z) == st0.heap.get("width", a.port.z),
                          st.heap.get("vis", res.z) == vis_i, st.heap.get("direction", res.z) == dir_n, untouched)
        return z3.And(fresh_, st.heap.get("$cls", res.z) == st.classid(BundleInstance),
                      st.heap.get("of", res.z) == st0.heap.get("of", a.port.z),
                      z3.Not(st.heap.get("port", res.z)), st.heap.get("role", res.z) == NULL)
    posts = property(lambda self: [("internal-copy", self.p_copy)])
    must_raise = property(lambda self: [("not-a-port", lambda eng, st0, a: not any(
        issubclass(eng.classes_of(st0, a.port)[0], k) for k in (Signal, BundleInstance)))])


def copy_port_engine():
    from .c_bundleinst import SCHEMA_EXTRA as BI_SCHEMA
    return mk_engine(contracts=[c_elab.Fail()], schema_extra=dict(BI_SCHEMA, desc="optstr", related_clk="ref", related_pwr="ref", related_gnd="ref"),
                     inline={"hdl21.signal:Signal.__copy__"})


VERIFY_COPY_PORT = [CopyPortProved()]
