"""elab/passes/slices.py (C03 / C01): the resolver's dispatch and the per-connection rewrite.

_resolve_sliceable(conn): a Signal is returned as it is; a Slice / Concat / port or bundle reference goes to its own
resolver exactly once; anything else is a TypeError.
SliceResolver.elaborate_module, inner loop body (one arbitrary (portname, conn) of one instance): a Slice- or
Concat-valued connection is replaced - through connect(portname, ...) - by what _resolve_sliceable returns for that very
object; every other connection is left alone."""
import ast
import z3
from pyvc import *
from pyvc import loader
from pyvc.engine import Frame
from .common import *
from hdl21.bundle import BundleRef, BundleInstance
from hdl21.noconn import NoConn
from hdl21.module import Module
from hdl21.instance import Instance
from hdl21.elab.passes.slices import SliceResolver

KEY = "hdl21.elab.passes.slices:_resolve_sliceable"
TARGETS = {Slice: "hdl21.elab.passes.slices:_resolve_slice", Concat: "hdl21.elab.passes.slices:_resolve_concat",
           PortRef: "hdl21.elab.passes.slices:_resolve_ref", BundleRef: "hdl21.elab.passes.slices:_resolve_ref"}


class Resolver(Contract):
    pure = False
    raises = (RuntimeError, ValueError, TypeError)
    returns = "ref"
    result_classes = (Signal, Slice, Concat)

    def __init__(self, key):
        self.key = key

    def scenarios(self, eng):
        return []

    def frame(self, eng, st, a):
        for f in ("_inner", "_slices", "_concats"):
            if f in st.heap.schema:
                st.heap.havoc_field(f)


class ResolveSliceable(Contract):
    key = KEY
    props = ("C03", "C01")
    pure = False
    raises = (RuntimeError, ValueError, TypeError)

    def scenarios(self, eng):
        for nm, classes in (("signal", (Signal,)), ("slice", (Slice,)), ("concat", (Concat,)), ("portref", (PortRef,)),
                            ("bundleref", (BundleRef,))):
            yield Scenario(nm, lambda eng, st, classes=classes: {"conn": sym_ref(st, "conn", classes)})
        s = Scenario("not-sliceable", lambda eng, st: {"conn": sym_ref(st, "conn", (BundleInstance, NoConn, Module))})
        s.expect_raise = True
        yield s

    def p_dispatch(self, eng, st0, st, a, res):
        cls = eng.classes_of(st0, a.conn)[0]
        if issubclass(cls, Signal):
            return z3.And(res.z == a.conn.z, z3.BoolVal(not st.calls))
        key = next(k for c, k in TARGETS.items() if issubclass(cls, c))
        calls = [c for c in st.calls if c[0] == key]
        others = [c for c in st.calls if c[0] != key]
        return len(calls) == 1 and not others and list(vars(calls[0][1]).values())[0] is a.conn
    posts = property(lambda self: [("own-resolver-exactly-once", self.p_dispatch)])
    must_raise = property(lambda self: [("not-sliceable", lambda eng, st0, a: not any(
        issubclass(eng.classes_of(st0, a.conn)[0], c) for c in (Signal,) + tuple(TARGETS)))])


def engine():
    return mk_engine(contracts=[Resolver(k) for k in sorted(set(TARGETS.values()))])


VERIFY = [ResolveSliceable()]


class ConnectCallee(Contract):
    key = "hdl21.instance:_Instance.connect"
    pure = False
    raises = (TypeError,)
    returns = "opaque"

    def scenarios(self, eng):
        return []

    def frame(self, eng, st, a):
        for f in ("conns", "_connected_ports"):
            st.heap.havoc_field(f)


@guarded("koi", "hdl21.elab.passes.slices:SliceResolver.elaborate_module")
def rewrite_obligations():
    key = "hdl21.elab.passes.slices:SliceResolver.elaborate_module"
    ext = loader.extract(key)
    info = {"sha": ext.sha, "lines": ext.lines, "path": ext.path, "paths": 0, "scenarios": 0, "unsupported": []}
    obs = []
    inner = [n for n in ast.walk(ext.node) if isinstance(n, ast.For) and isinstance(n.target, ast.Tuple)
             and "conns" in ast.unparse(n.iter)]
    if len(inner) != 1:
        info["unsupported"].append(f"expected one loop over inst.conns, found {len(inner)}")
        return key, obs, info
    loop = inner[0]
    tk, tv = (t.id for t in loop.target.elts)
    for nm, classes in (("slice", (Slice,)), ("concat", (Concat,)), ("signal", (Signal,)), ("bundle", (BundleInstance,))):
        eng = mk_engine(contracts=[Resolver(KEY), ConnectCallee()])
        st = eng.new_state()
        me = sym_ref(st, "self", (SliceResolver,))
        inst = sym_ref(st, "inst", (Instance,))
        conn = sym_ref(st, "conn", classes)
        pname = SStr(z3.String("portname"))
        st.locals = {"self": me, "inst": inst, "module": sym_ref(st, "module", (Module,)), tk: pname, tv: conn}
        st0 = st.fork()
        eng.frames.append(Frame(ext, ext.key))
        eng.cuts = []
        try:
            outs = eng.exec_block(loop.body, st)
        except Unsupported as e:
            info["unsupported"].append(f"{nm}: {e}")
            continue
        finally:
            eng.frames.pop()
        info["scenarios"] += 1
        for pi, (kind, s2, v) in enumerate(outs):
            info["paths"] += 1
            if kind == "exc":
                continue
            meta = {"trace": list(s2.trace), "havoc": list(s2.ghost.get("havoc", ()))}
            res = [c for c in s2.calls if c[0] == KEY]
            con = [c for c in s2.calls if c[0] == ConnectCallee.key]
            if nm in ("slice", "concat"):
                ok = len(res) == 1 and res[0][1].conn is conn and len(con) == 1 and isinstance(con[0][1].self, SRef) and \
                    con[0][1].self.z.eq(inst.z) and isinstance(con[0][1].conn, SRef)
                goal = z3.BoolVal(False)
                if ok:
                    goal = zstr(con[0][1].portname) == pname.z
            else:
                goal = z3.And(z3.BoolVal(not res and not con), s2.heap.arr("conns") == st0.heap.arr("conns"))
            obs.append(Obligation(f"{key}/connection-{nm}/p{pi}/post.rewritten-through-connect" if nm in ("slice", "concat")
                                  else f"{key}/connection-{nm}/p{pi}/post.left-alone", "post", list(s2.pc), goal, key,
                                  f"connection-{nm}", pi, meta))
    return key, obs, info
