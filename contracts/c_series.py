"""Contracts for hdl21/generators.py helpers (C19)."""
import z3
from pyvc import *
from .common import *
from hdl21.module import Module

FIELD_CLASSES = {"ports[]": (Signal,)}


class SeriesConn(Contract):
    """_seriesconn(m, conn): a series port given by name or by Signal resolves to the module's port of that name;
    anything else, or a missing port, is refused."""
    key = "hdl21.generators:_seriesconn"
    props = ("C19",)
    raises = (TypeError, ValueError)
    returns = "ref"

    def scenarios(self, eng):
        def by_name(eng, st):
            eng.field_classes.update(FIELD_CLASSES)
            return {"m": sym_ref(st, "m", (Module,)), "conn": SStr(z3.String("nm"))}
        yield Scenario("by-name", by_name)

        def by_sig(eng, st):
            eng.field_classes.update(FIELD_CLASSES)
            s = sym_ref(st, "sig", (Signal,))
            st.assume(z3.Not(st.heap.get("name$none", s.z)))
            return {"m": sym_ref(st, "m", (Module,)), "conn": s}
        yield Scenario("by-signal", by_sig)

        def bad(eng, st):
            return {"m": sym_ref(st, "m", (Module,)), "conn": SInt(z3.Int("k"))}
        s = Scenario("by-number", bad)
        s.expect_raise = True
        yield s

    @staticmethod
    def _name(st0, a):
        return a.conn.z if isinstance(a.conn, SStr) else st0.heap.get("name", a.conn.z)

    def p_port(self, eng, st0, st, a, res):
        return z3.And(res.z == st0.heap.get("ports", a.m.z)[self._name(st0, a)], res.z != NULL)
    posts = property(lambda self: [("the-named-port", self.p_port)])
    reasons = property(lambda self: {
        TypeError: lambda eng, st0, a: not isinstance(a.conn, (SStr, SRef)),
        ValueError: lambda eng, st0, a: isinstance(a.conn, (SStr, SRef)) and
        st0.heap.get("ports", a.m.z)[self._name(st0, a)] == NULL})
    must_raise = property(lambda self: [("no-such-port", lambda eng, st0, a: not isinstance(a.conn, (SStr, SRef)) or
                                         st0.heap.get("ports", a.m.z)[self._name(st0, a)] == NULL)])


def engine():
    return mk_engine(contracts=CONTRACTS, field_classes=FIELD_CLASSES)


CONTRACTS = [SeriesConn()]
VERIFY = CONTRACTS


# ---------------------------------------------------------------------------------------------------------------------
# generators._unused_name(m, name): the name Series gives its internal net / instance array - `name` followed by zero or
# more underscores, and not a key of the module's namespace (so a unit port called `i` or `units` is never replaced).
# ---------------------------------------------------------------------------------------------------------------------
from .c_names import underscores_after


class UnusedName(Contract):
    key = "hdl21.generators:_unused_name"
    props = ("C19", "C05")
    raises = ()
    returns = "str"

    def scenarios(self, eng):
        from hdl21.module import Module

        def setup(eng, st):
            return {"m": sym_ref(st, "m", (Module,)), "name": SStr(z3.String("base"))}
        yield Scenario("any-namespace", setup)

    def p_fresh(self, eng, st0, st, a, res):
        ns = st0.heap.get("namespace", a.m.z)
        return z3.And(z3.Select(ns, zstr(res)) == NULL, underscores_after(a.name.z, zstr(res)))
    posts = property(lambda self: [("unused-and-recognisable", self.p_fresh)])


def _unused_inv(eng, st_entry, st_now):
    return underscores_after(zstr(st_entry.locals["name"]), zstr(st_now.locals["name"]))


UNUSED_LOOPS = {("hdl21.generators:_unused_name", 0): LoopSpec(_unused_inv, modifies=(), locals_mod=("name",))}


def unused_engine():
    return mk_engine(loops=UNUSED_LOOPS)


VERIFY_UNUSED = [UnusedName()]


def series_site_audit():
    """Syntactic call-site obligation on generators.Series and generators.Wrapper: every object they name themselves (a
    name passed to <module>.add, or to the constructor of what is added) gets that name from _unused_name(<module>, ...).
    -> (number of naming sites, offenders)"""
    import ast
    from pyvc import loader
    from hdl21.generators import Series
    bad = []
    n_sites = 0
    for ext, var in ((loader.extract_func(Series.func), "m"), (loader.extract("hdl21.generators:Wrapper"), "wrapper")):
        for n in ast.walk(ext.node):
            if not (isinstance(n, ast.Call) and isinstance(n.func, ast.Attribute) and n.func.attr == "add"
                    and isinstance(n.func.value, ast.Name) and n.func.value.id == var):
                continue
            names = [k.value for k in n.keywords if k.arg == "name"]
            for a in n.args:
                for sub in ast.walk(a):
                    if isinstance(sub, ast.Call):
                        names += [k.value for k in sub.keywords if k.arg == "name"]
            for nm in names:
                n_sites += 1
                ok = isinstance(nm, ast.Call) and getattr(nm.func, "id", "") == "_unused_name" and nm.args and \
                    getattr(nm.args[0], "id", "") == var
                if not ok:
                    bad.append((ext.path, n.lineno, ast.unparse(nm)))
    return n_sites, bad
