"""Contracts for hdl21/generators.py helpers (C19)."""
import z3
from pyvc import *
from .common import *
from hdl21.module import Module

FIELD_CLASSES = {"ports[]": (Signal,)}


class SeriesConn(Contract):
    """_seriesconn(m, conn): a series port given by name or by Signal resolves to the module's port of that name;
    anything else, or a missing port, is refused."""
    key = "hdl21.generators:_seriesconn"
    props = ("C19",)
    raises = (TypeError, ValueError)
    returns = "ref"

    def scenarios(self, eng):
        def by_name(eng, st):
            eng.field_classes.update(FIELD_CLASSES)
            return {"m": sym_ref(st, "m", (Module,)), "conn": SStr(z3.String("nm"))}
        yield Scenario("by-name", by_name)

        def by_sig(eng, st):
            eng.field_classes.update(FIELD_CLASSES)
            s = sym_ref(st, "sig", (Signal,))
            st.assume(z3.Not(st.heap.get("name$none", s.z)))
            return {"m": sym_ref(st, "m", (Module,)), "conn": s}
        yield Scenario("by-signal", by_sig)

        def bad(eng, st):
            return {"m": sym_ref(st, "m", (Module,)), "conn": SInt(z3.Int("k"))}
        s = Scenario("by-number", bad)
        s.expect_raise = True
        yield s

    @staticmethod
    def _name(st0, a):
        return a.conn.z if isinstance(a.conn, SStr) else st0.heap.get("name", a.conn.z)

    def p_port(self, eng, st0, st, a, res):
        return z3.And(res.z == st0.heap.get("ports", a.m.z)[self._name(st0, a)], res.z != NULL)
    posts = property(lambda self: [("the-named-port", self.p_port)])
    reasons = property(lambda self: {
        TypeError: lambda eng, st0, a: not isinstance(a.conn, (SStr, SRef)),
        ValueError: lambda eng, st0, a: isinstance(a.conn, (SStr, SRef)) and
        st0.heap.get("ports", a.m.z)[self._name(st0, a)] == NULL})
    must_raise = property(lambda self: [("no-such-port", lambda eng, st0, a: not isinstance(a.conn, (SStr, SRef)) or
                                         st0.heap.get("ports", a.m.z)[self._name(st0, a)] == NULL)])


def engine():
    return mk_engine(contracts=CONTRACTS, field_classes=FIELD_CLASSES)


CONTRACTS = [SeriesConn()]
VERIFY = CONTRACTS
