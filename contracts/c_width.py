"""Contract for hdl21/elab/helpers/width.py:width  (C03; used by C01/C02)."""
import z3
from pyvc import *
from .common import *
from hdl21.noconn import NoConn
from hdl21.bundle import BundleInstance, AnonymousBundle, BundleRef

W = z3.Function("W", z3.IntSort(), z3.IntSort())   # spec: number of bits a connectable denotes

HAS_WIDTH = (Signal, Slice, Concat, PortRef, BundleRef)
NO_WIDTH = (BundleInstance, AnonymousBundle, NoConn)


def specw(st, ref):
    return W(ref.z if isinstance(ref, SRef) else ref)


class WidthContract(Contract):
    """width(conn): returns W(conn) >= 1; for a Signal that is its `width` field.  Bundle-like and no-connect arguments
    are refused through `failer` (default: RuntimeError).  A Slice whose index selects nothing raises ValueError."""
    key = "hdl21.elab.helpers.width:width"
    props = ("C03",)
    raises = (RuntimeError, ValueError)
    returns = "int"

    def post_value(self, eng, st0, st, a, res):
        c = z3.And(res.z == W(a.conn.z), res.z >= 1)
        if all(issubclass(k, Signal) for k in eng.classes_of(st0, a.conn)):
            c = z3.And(c, res.z == st0.heap.get("width", a.conn.z))
        return c
    posts = property(lambda self: [("value", self.post_value)])

    def _never_for_signal(self, eng, st0, a):
        return not all(issubclass(k, Signal) for k in eng.classes_of(st0, a.conn))
    reasons = property(lambda self: {RuntimeError: self._never_for_signal, ValueError: self._never_for_signal})

    def scenarios(self, eng):
        return []


CONTRACTS = [WidthContract()]


# ---------------------------------------------------------------------------------------------------
# Verification of width() itself (the contract above is what callers see)
# ---------------------------------------------------------------------------------------------------
class Fail(Contract):
    key = "hdl21.elab.helpers.width:fail"
    raises = (RuntimeError,)
    posts = [("never-returns", lambda eng, st0, st, a, res: False)]

    def scenarios(self, eng):
        return []


class RefWidth(Contract):
    key = "hdl21.elab.helpers.width:ref_width"
    raises = (RuntimeError,)
    returns = "int"

    def scenarios(self, eng):
        return []
    posts = property(lambda self: [("value", lambda eng, st0, st, a, res: z3.And(res.z == W(a.ref.z), res.z >= 1))])


class WidthDispatch(Contract):
    """width(conn): Signal -> its width field; Slice -> the number of bits the slice selects; Concat -> the sum of its
    parts' widths; references -> ref_width; bundles and no-connects -> refused through `failer`."""
    key = "hdl21.elab.helpers.width:width"
    props = ("C03",)
    recursive = True
    pure = False
    raises = (RuntimeError, ValueError)
    returns = "int"

    def scenarios(self, eng):
        from . import c_export

        def mk(nm, f, expect_raise=False):
            s = Scenario(nm, f)
            s.expect_raise = expect_raise
            return s

        def sig(eng, st):
            c = sym_ref(st, "conn", (Signal,))
            st.assume(st.heap.get("width", c.z) >= 1)
            return {"conn": c, "failer": WIDTH_FAIL}
        yield mk("Signal", sig)
        for nm, mkidx in c_export.index_scenarios((None, -2)):
            def sl(eng, st, mkidx=mkidx):
                return {"conn": c_export.mk_slice(eng, st, mkidx()), "failer": WIDTH_FAIL}
            yield mk("Slice," + nm, sl)
        for n in (1, 2, 3):
            def cat(eng, st, n=n):
                c = sym_ref(st, "conn", (Concat,))
                parts = tuple(sym_ref(st, f"part{k}", (Signal, Slice, Concat)) for k in range(n))
                eng.write_field(st, c, "parts", parts)
                st.ghost["parts"] = parts
                return {"conn": c, "failer": WIDTH_FAIL}
            yield mk(f"Concat[{n}]", cat)

        def refs(eng, st):
            return {"conn": sym_ref(st, "conn", (PortRef, BundleRef)), "failer": WIDTH_FAIL}
        yield mk("reference", refs)

        def bad(eng, st):
            return {"conn": sym_ref(st, "conn", NO_WIDTH), "failer": WIDTH_FAIL}
        yield mk("no-width", bad, True)

    def pre(self, eng, st, a):
        from . import c_export
        if all(issubclass(k, Slice) for k in eng.classes_of(st, a.conn)):
            return c_export.cache_coherent(st, a.conn.z)
        return True

    def frame(self, eng, st, a):
        # caches only: a slice's _inner slot, a reference's _width slot (of the argument or of what it is built from)
        st.heap.havoc_field("_inner")
        st.heap.havoc_field("_width")
        st.heap.havoc_field("_width$none")

    def p_value(self, eng, st0, st, a, res):
        from . import c_export, c_slice
        cl = eng.classes_of(st0, a.conn)
        if all(issubclass(k, Signal) for k in cl):
            return res.z == st0.heap.get("width", a.conn.z)
        if all(issubclass(k, Slice) for k in cl):
            sp = c_slice.SliceInnerContract.spec(st0, NS({"slize": a.conn}))
            return z3.And(res.z == sp["n"], res.z >= 1)
        if all(issubclass(k, Concat) for k in cl):
            parts = st0.ghost.get("parts")
            if parts is None:
                return res.z == W(a.conn.z)
            return res.z == sum(W(p.z) for p in parts)
        return z3.And(res.z == W(a.conn.z), res.z >= 1)
    posts = property(lambda self: [("value", self.p_value)])
    must_raise = property(lambda self: [("no-width", lambda eng, st0, a: all(
        issubclass(k, NO_WIDTH) for k in eng.classes_of(st0, a.conn)))])
    reasons = property(lambda self: {RuntimeError: lambda eng, st0, a: not all(
        issubclass(k, Signal) for k in eng.classes_of(st0, a.conn))})


import importlib
WIDTH_FAIL = importlib.import_module("hdl21.elab.helpers.width").fail


def verify_engine():
    from . import c_export
    contracts = [WidthDispatch(), Fail(), RefWidth()] + c_export.SLICE_ATTRS
    return mk_engine(contracts=contracts, schema_extra=c_export.SCHEMA_EXTRA)


VERIFY_WIDTH = [WidthDispatch()]


# ------------------------------------------------------------------------------------------------ ref_width, proved
REFERENT = z3.Function("referent", z3.IntSort(), z3.IntSort())   # ghost: the definition-level port / member a reference denotes


class ResolveRefType(Contract):
    """resolve_portref_type / resolve_bundleref_type as seen by ref_width: the definition-level Signal or bundle
    instance the reference denotes (ghost function `referent`); an unresolvable reference goes to the failer.
    ASSUMED here (the look-up itself is exercised by the bounded reference family)."""
    returns = "ref"
    result_classes = (Signal, BundleInstance)
    raises = (RuntimeError,)

    def __init__(self, fn, argname):
        self.key = f"hdl21.elab.helpers.resolve_ref_types:{fn}"
        self.argname = argname

    def scenarios(self, eng):
        return []
    posts = property(lambda self: [("referent", lambda eng, st0, st, a, res:
                                    res.z == REFERENT(getattr(a, self.argname).z))])


class RefWidthProved(Contract):
    """ref_width(ref): the width of the port / bundle member the reference denotes AS IT IS NOW - for every kind of
    instance the reference goes through; a reference to a bundle-valued port or member has no width and is refused."""
    key = "hdl21.elab.helpers.width:ref_width"
    props = ("C03",)
    pure = False
    raises = (RuntimeError, ValueError)
    returns = "int"

    def scenarios(self, eng):
        from hdl21.primitives import PrimitiveCall
        from hdl21.external_module import ExternalModuleCall
        from hdl21.module import Module
        from hdl21.instance import Instance

        def mk(kinds):
            def setup(eng, st):
                eng.field_classes["inst"] = (Instance,)
                eng.field_classes["of"] = (Module, PrimitiveCall, ExternalModuleCall)
                ref = sym_ref(st, "ref", kinds)
                t = REFERENT(ref.z)
                st.assume(z3.And(t != NULL, st.heap.get("$alive", t), t != ref.z))
                st.assume(z3.Or([st.heap.get("$cls", t) == st.classid(k) for k in (Signal, BundleInstance)]))
                st.assume(st.heap.get("width", t) >= 1)
                if PortRef in kinds:
                    inst = st.heap.get("inst", ref.z)
                    st.assume(z3.And(inst != NULL, st.heap.get("$alive", inst)))
                return {"ref": ref, "failer": WIDTH_FAIL}
            return setup
        yield Scenario("port-reference", mk((PortRef,)))
        yield Scenario("bundle-reference", mk((BundleRef,)))

    def frame(self, eng, st, a):
        st.heap.havoc_field("_width")
        st.heap.havoc_field("_width$none")

    def _is_sig(self, st0, a):
        return st0.heap.get("$cls", REFERENT(a.ref.z)) == st0.classid(Signal)

    def p_value(self, eng, st0, st, a, res):
        return z3.And(self._is_sig(st0, a), res.z == st0.heap.get("width", REFERENT(a.ref.z)))
    posts = property(lambda self: [("present-width-of-the-referent", self.p_value)])
    must_raise = property(lambda self: [("bundle-valued", lambda eng, st0, a: z3.Not(self._is_sig(st0, a)))])


def ref_width_engine():
    class SignalWidth(WidthContract):
        """width() as called by ref_width on the referent"""
    contracts = [RefWidthProved(), SignalWidth(), Fail(), ResolveRefType("resolve_portref_type", "pref"),
                 ResolveRefType("resolve_bundleref_type", "bref")]
    return mk_engine(contracts=contracts)


VERIFY_REF_WIDTH = [RefWidthProved()]
