"""Contract for hdl21/elab/helpers/width.py:width  (C03; used by C01/C02)."""
import z3
from pyvc import *
from .common import *
from hdl21.noconn import NoConn
from hdl21.bundle import BundleInstance, AnonymousBundle, BundleRef

W = z3.Function("W", z3.IntSort(), z3.IntSort())   # spec: number of bits a connectable denotes

HAS_WIDTH = (Signal, Slice, Concat, PortRef, BundleRef)
NO_WIDTH = (BundleInstance, AnonymousBundle, NoConn)


def specw(st, ref):
    return W(ref.z if isinstance(ref, SRef) else ref)


class WidthContract(Contract):
    """width(conn): returns W(conn) >= 1; for a Signal that is its `width` field.  Bundle-like and no-connect arguments
    are refused through `failer` (default: RuntimeError).  A Slice whose index selects nothing raises ValueError."""
    key = "hdl21.elab.helpers.width:width"
    props = ("C03",)
    raises = (RuntimeError, ValueError)
    returns = "int"

    def post_value(self, eng, st0, st, a, res):
        c = z3.And(res.z == W(a.conn.z), res.z >= 1)
        if all(issubclass(k, Signal) for k in eng.classes_of(st0, a.conn)):
            c = z3.And(c, res.z == st0.heap.get("width", a.conn.z))
        return c
    posts = property(lambda self: [("value", self.post_value)])

    def _never_for_signal(self, eng, st0, a):
        return not all(issubclass(k, Signal) for k in eng.classes_of(st0, a.conn))
    reasons = property(lambda self: {RuntimeError: self._never_for_signal, ValueError: self._never_for_signal})

    def scenarios(self, eng):
        return []


CONTRACTS = [WidthContract()]
