"""Shared heap schema (field name -> kind) and helpers for the sidecar contracts.

The schema lists only the fields that some contract talks about; writes to any other field are dropped by the executor
(recorded per path) and reads of them yield an opaque value on which no decision can be taken (=> Unsupported, never a
silent pass).
"""
import z3
from pyvc import *
from pyvc import loader

loader.ensure_paths()
import hdl21 as h
from hdl21.signal import Signal, PortDir, Visibility
from hdl21.slice import Slice, SliceInner
from hdl21.concat import Concat
from hdl21.portref import PortRef

SCHEMA = {
    # ints
    "width": "int", "top": "int", "bot": "int", "step": "int", "n": "int",
    "_width": "optint",
    # strings
    "name": "optstr", "portname": "str",
    # enums
    "vis": "enum", "direction": "enum",
    # flags
    "_initialized": "bool",
    # refs
    "parent": "ref", "_inner": "ref", "inst": "ref", "of": "ref", "_parent_module": "ref",
    "resolved": "ref", "_refs": "ref",
    # python-side values
    "index": "py", "parts": "py",
    "Module._elaborated": "ref", "_elaborated": "bool", "_parent_bundle": "ref",
    # containers
    "ports": "map[str,ref]", "signals": "map[str,ref]", "instances": "map[str,ref]", "instarrays": "map[str,ref]",
    "instbundles": "map[str,ref]", "bundles": "map[str,ref]", "namespace": "map[str,ref]",
    "conns": "map[str,ref]", "_connected_ports": "set[pref]",
    "all": "map[str,ref]", "portrefs": "map[str,ref]", "connrefs": "map[str,ref]",
    "_slices": "set[ref]", "_concats": "set[ref]",
}
ENUMS = {"vis": Visibility, "direction": PortDir}


def mk_engine(contracts=(), inline=(), loops=None, class_attrs=None, field_classes=None, schema_extra=None,
              timeout_ms=10000):
    schema = dict(SCHEMA)
    schema.update(schema_extra or {})
    eng = Engine(schema, ENUMS, {c.key: c for c in contracts}, inline, loops, class_attrs, timeout_ms)
    eng.field_classes = dict(field_classes or {})
    return eng


def sym_ref(st, name, classes, alive=True):
    r = z3.Int(name)
    st.assume(r != NULL)
    if alive:
        st.assume(st.heap.get("$alive", r))
    ref = SRef(r, classes)
    ids = [st.classid(c) for c in classes]
    st.assume(z3.Or([st.heap.get("$cls", r) == i for i in ids]))
    return ref


def And(*xs):
    xs = [x for x in xs if x is not True]
    if any(x is False for x in xs):
        return False
    if not xs:
        return True
    return z3.And([zbool(x) for x in xs])


def Or(*xs):
    xs = [x for x in xs if x is not False]
    if any(x is True for x in xs):
        return True
    if not xs:
        return False
    return z3.Or([zbool(x) for x in xs])


def Not(x):
    if isinstance(x, bool):
        return not x
    return z3.Not(zbool(x))


def Implies(a, b):
    if a is False or b is True:
        return True
    if a is True:
        return b
    return z3.Implies(zbool(a), zbool(b))


def Ite(c, a, b):
    if isinstance(c, bool):
        return a if c else b
    if isinstance(a, (int, SInt)) :
        return z3.If(zbool(c), zint(a), zint(b))
    return z3.If(zbool(c), a, b)


def guarded(shape, key=None):
    """Obligation builders must never crash the check: an Unsupported raised while post-processing the paths (a value of
    a shape the builder was not written for, after the code changed) becomes an `unsupported` entry.
    shape: "koi" -> (key, obs, info) | "oi" -> (obs, info) | "list" -> [(key, obs, info)]"""
    def deco(fn):
        def wrapper(*a, **k):
            try:
                return fn(*a, **k)
            except Unsupported as e:
                info = {"unsupported": [f"obligation builder {fn.__name__}: {e}"], "paths": 0, "scenarios": 0}
                name = key or fn.__module__ + ":" + fn.__name__
                if shape == "koi":
                    return name, [], info
                if shape == "oi":
                    return [], info
                return [(name, [], info)]
        wrapper.__name__ = fn.__name__
        wrapper.__doc__ = fn.__doc__
        return wrapper
    return deco
