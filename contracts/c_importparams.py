"""Contracts on the parameter/direction leaves of hdl21/proto/importing.py (C11): the import side of the tables and of
the parameter-value dispatch whose export side is under contract in c_params / c_export.

* import_port_dir(pport): never refuses one of the four VLSIR directions, the Hdl21 direction of the same name.
* import_prefix(vpre): never refuses one of the 21 VLSIR prefixes, the Hdl21 prefix of the same name.
* import_prefixed(vpref): the Prefixed is built (constructor trusted) from the number the record carries in the variant
  that is set and from import_prefix of the record's own prefix field.
* import_parameter_value(pparam): per variant of the record's `value` oneof the very value the record carries
  (int / text / literal text), a `prefixed` variant through exactly one call of import_prefixed on the record's own
  `prefixed` sub-record.  ValueError may escape only for a record outside the tables / with no variant set (so every
  record an export can produce is imported); what happens to records no export produces is not constrained.

With export_port_dir / export_prefix / export_param_value's postconditions (proved in c_export / c_params) the round trip
of a direction, a prefix, an integer, a literal is the identity: lemmas in `roundtrip_lemmas()`, each a goal over the two
contracts only."""
import z3
import vlsir
import vlsir.circuit_pb2 as vckt
from pyvc import *
from .common import *
from hdl21.prefix import Prefix, Prefixed
from hdl21.signal import PortDir

K_DIR = "hdl21.proto.importing:import_port_dir"
K_PRE = "hdl21.proto.importing:import_prefix"
K_VAL = "hdl21.proto.importing:import_parameter_value"
K_PFX = "hdl21.proto.importing:import_prefixed"

SCHEMA_EXTRA = {"literal": "str", "int64_value": "int", "string_value": "str", "ParamValue.prefixed": "ref",
                "direction": "int"}
FIELD_CLASSES = {"ParamValue.prefixed": (vlsir.Prefixed,)}


def _same_member(res, enum_cls, member):
    """`res` (what the engine returned) is the member `member` of enum_cls"""
    if isinstance(res, SEnum):
        return res.z == list(enum_cls).index(member) if res.cls is enum_cls else z3.BoolVal(False)
    return z3.BoolVal(res is member)


class ImportPortDir(Contract):
    key = K_DIR
    props = ("C11", "C10")
    raises = (ValueError,)

    def scenarios(self, eng):
        def setup(eng, st):
            pport = sym_ref(st, "pport", (vckt.Port,))
            return {"pport": pport}
        yield Scenario("any-record", setup)

    def _valid(self, st0, a):
        d = st0.heap.get("direction", a.pport.z)
        return z3.Or([d == int(getattr(vckt.Port.Direction, m.name)) for m in PortDir])

    def p_name(self, eng, st0, st, a, res):
        d = st0.heap.get("direction", a.pport.z)
        return z3.And([z3.Implies(d == int(getattr(vckt.Port.Direction, m.name)), _same_member(res, PortDir, m))
                       for m in PortDir])
    posts = property(lambda self: [("same-name", self.p_name)])
    reasons = property(lambda self: {ValueError: lambda eng, st0, a: z3.Not(self._valid(st0, a))})


class ImportPrefix(Contract):
    key = K_PRE
    props = ("C11", "C13")
    raises = (ValueError,)

    def scenarios(self, eng):
        def setup(eng, st):
            return {"vpre": SInt(z3.Int("vpre"))}
        yield Scenario("any-number", setup)

    def _valid(self, a):
        return z3.Or([zint(a.vpre) == int(getattr(vlsir.SIPrefix, m.name)) for m in Prefix])

    def p_name(self, eng, st0, st, a, res):
        return z3.And([z3.Implies(zint(a.vpre) == int(getattr(vlsir.SIPrefix, m.name)), _same_member(res, Prefix, m))
                       for m in Prefix])
    posts = property(lambda self: [("same-name", self.p_name)])
    reasons = property(lambda self: {ValueError: lambda eng, st0, a: z3.Not(self._valid(a))})


class ImportPrefixedCallee(Contract):
    """import_prefixed as a callee of import_parameter_value: some Prefixed, or ValueError (bounded part checks it)."""
    key = K_PFX
    pure = False
    raises = (ValueError,)
    returns = "ref"
    result_classes = (Prefixed,)

    def scenarios(self, eng):
        return []


class ImportParamValue(Contract):
    key = K_VAL
    props = ("C11", "C13")
    pure = False
    raises = (ValueError,)

    def scenarios(self, eng):
        def mk(variant):
            def setup(eng, st):
                eng.field_classes.update(FIELD_CLASSES)
                pv = sym_ref(st, "pparam", (vlsir.ParamValue,))
                st.ghost[("oneof", zid(pv.z), "value")] = variant
                if variant == "prefixed":
                    sub = st.heap.get("ParamValue.prefixed", pv.z)
                    st.assume(z3.And(sub != NULL, st.heap.get("$alive", sub),
                                     st.heap.get("$cls", sub) == st.classid(vlsir.Prefixed)))
                return {"pparam": pv}
            s = Scenario(variant or "unset", setup)
            s.expect_raise = variant is None
            return s
        for v in ("int64_value", "string_value", "literal", "prefixed", None):
            yield mk(v)

    def p_value(self, eng, st0, st, a, res):
        variant = st0.ghost.get(("oneof", zid(a.pparam.z), "value"))
        g = lambda f: st0.heap.get(f, a.pparam.z)
        if variant == "int64_value":
            return isinstance(res, (int, SInt)) and not isinstance(res, (bool, SBool)) and zint(res) == g("int64_value")
        if variant in ("string_value", "literal"):
            return isinstance(res, SStr) and res.z == g(variant)
        if variant == "prefixed":
            calls = [c for c in st.calls if c[0] == K_PFX]
            if len(calls) != 1 or not isinstance(res, SRef):
                return False
            arg = calls[0][1].vpref
            return z3.And(z3.BoolVal(isinstance(arg, SRef)), arg.z == g("ParamValue.prefixed")) if isinstance(arg, SRef) else False
        return variant is None      # a record with no variant set: nothing is demanded of a normal return
                                    # (the property speaks of exported packages; wf_package refuses such records)
    posts = property(lambda self: [("the-value-carried", self.p_value)])

    def _unset(self, eng, st0, a):
        return st0.ghost.get(("oneof", zid(a.pparam.z), "value")) is None
    reasons = property(lambda self: {
        ValueError: lambda eng, st0, a: self._unset(eng, st0, a) or
        st0.ghost.get(("oneof", zid(a.pparam.z), "value")) == "prefixed"})


def engine():
    return mk_engine(contracts=[ImportPrefixedCallee()], schema_extra=SCHEMA_EXTRA, field_classes=FIELD_CLASSES)


VERIFY = [ImportPortDir(), ImportPrefix(), ImportParamValue()]


def roundtrip_lemmas():
    """[(name, assumptions, goal)] over the two sides' contracts only.
    direction: export_port_dir's post (c_export.PortDirExport: member k -> VLSIR number of the same name) composed with
    import_port_dir's post (VLSIR number of name m -> member m) is the identity, provided the VLSIR numbers of the four
    names are distinct (checked here over the installed enum: the lemma's goal includes it).  Same for the 21 prefixes."""
    out = []
    for nm, members, num in (("direction", list(PortDir), lambda m: int(getattr(vckt.Port.Direction, m.name))),
                             ("prefix", list(Prefix), lambda m: int(getattr(vlsir.SIPrefix, m.name)))):
        k, x, r = z3.Ints(f"rt_{nm}_k rt_{nm}_x rt_{nm}_r")
        asm = [k >= 0, k < len(members)]
        asm += [z3.Implies(k == i, x == num(m)) for i, m in enumerate(members)]          # export post
        asm += [z3.Implies(x == num(m), r == i) for i, m in enumerate(members)]          # import post
        out.append((f"{nm}-roundtrip: import(export(member)) is that member", asm, r == k))
    return out


def replay(con, ob):
    """Replay of a failed obligation on the real function: the input spaces of the two tables are finite (4 / 21 numbers)
    and are walked completely; for import_parameter_value the failing variant is tried with a handful of payloads.
    -> (reproduced, detail, input) as ctx.verify expects."""
    import importlib
    im = importlib.import_module("hdl21.proto.importing")
    inp = {"function": con.key, "obligation": ob.name, "witness_class": ob.scenario}
    bad = []
    if con.key == K_DIR:
        for m in PortDir:
            pp = vckt.Port(signal="p", direction=getattr(vckt.Port.Direction, m.name))
            try:
                got = im.import_port_dir(pp)
            except Exception as e:
                got = f"{type(e).__name__}"
            if got is not m:
                bad.append(f"import_port_dir(direction={m.name}) -> {got}")
    elif con.key == K_PRE:
        for m in Prefix:
            try:
                got = im.import_prefix(getattr(vlsir.SIPrefix, m.name))
            except Exception as e:
                got = f"{type(e).__name__}"
            if got is not m:
                bad.append(f"import_prefix(SIPrefix.{m.name}) -> {got}")
    elif con.key == K_VAL:
        samples = {"int64_value": [0, 7, -3, 2 ** 40], "string_value": ["", "a", "1000", "x y"],
                   "literal": ["", "a", "1000", "2*w"]}
        for variant, vals in samples.items():
            for v in vals:
                # a record whose other fields were set before (the oneof keeps only the last one)
                pv = vlsir.ParamValue(**{variant: v})
                try:
                    got = im.import_parameter_value(pv)
                except Exception as e:
                    got = f"raised {type(e).__name__}"
                if type(got) is not type(v) or got != v:
                    bad.append(f"import_parameter_value({variant}={v!r}) -> {got!r}")
        pv = vlsir.ParamValue(prefixed=vlsir.Prefixed(prefix=vlsir.SIPrefix.MILLI, int64_value=5))
        try:
            got = im.import_parameter_value(pv)
            if not (isinstance(got, Prefixed) and got.prefix is Prefix.MILLI and got.number == 5):
                bad.append(f"import_parameter_value(prefixed=5 MILLI) -> {got!r}")
        except Exception as e:
            bad.append(f"import_parameter_value(prefixed=5 MILLI) raised {type(e).__name__}")
    elif con.key == K_PFX:
        from decimal import Decimal
        for m in Prefix:
            for variant, vals in (("int64_value", [0, 5, -3, 2 ** 40]), ("string_value", ["1.50", "1E-9", "12345678901234567890.5"]),
                                  ("double_value", [0.5, 1e-9])):
                for v in vals:
                    vp = vlsir.Prefixed(prefix=getattr(vlsir.SIPrefix, m.name), **{variant: v})
                    try:
                        got = im.import_prefixed(vp)
                    except Exception as e:
                        bad.append(f"import_prefixed({m.name}, {variant}={v!r}) raised {type(e).__name__}")
                        continue
                    want = Decimal(v) if variant != "double_value" else Decimal(str(v))
                    if not isinstance(got, Prefixed) or got.prefix is not m or got.number != want or \
                            (variant == "string_value" and got.number.as_tuple() != want.as_tuple()):
                        bad.append(f"import_prefixed({m.name}, {variant}={v!r}) -> {got!r}")
    elif con.key == K_PRM:
        from hdl21.primitives import Vpulse, Vdc
        names = list(PULSE_MAP)
        for present in [names, []] + [names[:k] + names[k + 1:] for k in range(len(names))] + [[n] for n in names]:
            params = {k: Prefixed(number=i + 1) for i, k in enumerate(present)}
            try:
                got = im.import_primitive_params(Vpulse, dict(params))
            except Exception as e:
                bad.append(f"import_primitive_params(Vpulse, {sorted(present)}) raised {type(e).__name__}")
                continue
            want = {f: params.get(v) for v, f in PULSE_MAP.items()}
            if not isinstance(got, dict) or set(got) != set(want) or any(got[f] is not want[f] for f in want):
                bad.append(f"import_primitive_params(Vpulse, {params!r}) -> {got!r}")
        d = {"dc": Prefixed(number=1), "ac": None}
        if im.import_primitive_params(Vdc, d) != d:
            bad.append("import_primitive_params(Vdc, ..) changed the parameters")
    if bad:
        inp["case"] = bad[0]
        return (True, "; ".join(bad[:4]), inp)
    # nothing fails natively (the two tables are walked completely; the other functions over the probes above): the
    # obligation is lost, the property is not shown broken - undecided, never a violation
    return ("undecided", "no table entry / probed record is imported wrongly by the real function", inp)


replay.finds_own_model = True


# ---------------------------------------------------------------------------------------------- import_prefixed
class ImportPrefixCallee(Contract):
    """import_prefix as a callee (proved above): some prefix - remembered with the call - or ValueError."""
    key = K_PRE

    def scenarios(self, eng):
        return []

    def apply(self, eng, st, args, kwargs, node=None):
        a = NS({"vpre": args[0] if args else kwargs.get("vpre"), "result": Opaque("the imported prefix")})
        st.calls.append((self.key, a))
        ok, bad = st.fork(), st.fork()
        return [(ok, a.result), (bad, Exc(ValueError))]


class PrefixedCtor2(Contract):
    """Prefixed(number=.., prefix=..) - trusted constructor (pydantic validation): a new Prefixed or a refusal."""
    key = "hdl21.prefix:Prefixed"

    def scenarios(self, eng):
        return []

    def apply(self, eng, st, args, kwargs, node=None):
        a = NS({"number": kwargs.get("number"), "prefix": kwargs.get("prefix"), "nargs": len(args),
                "extra": tuple(sorted(k for k in kwargs if k not in ("number", "prefix")))})
        st.calls.append((self.key, a))
        ok, bad = st.fork(), st.fork()
        r = ok.alloc(Prefixed)
        ok.ghost[("built-from", zid(r.z))] = a
        return [(ok, r), (bad, Exc(ValueError))]


class ImportPrefixed(Contract):
    """import_prefixed(vpref): the Prefixed returned was built from the number the record carries in the variant that is
    set (int64 / string; a double as it is) and from import_prefix(<the record's own prefix field>)."""
    key = K_PFX
    props = ("C11",)
    pure = False
    raises = (ValueError,)

    def scenarios(self, eng):
        def mk(variant):
            def setup(eng, st):
                vp = sym_ref(st, "vpref", (vlsir.Prefixed,))
                st.ghost[("oneof", zid(vp.z), "number")] = variant
                return {"vpref": vp}
            s = Scenario(variant or "unset", setup)
            s.expect_raise = variant is None
            return s
        for v in ("int64_value", "string_value", "double_value", None):
            yield mk(v)

    def p_built(self, eng, st0, st, a, res):
        variant = st0.ghost.get(("oneof", zid(a.vpref.z), "number"))
        if variant is None:
            return True                      # nothing demanded of a record no export produces
        pre = [c[1] for c in st.calls if c[0] == K_PRE]
        ctor = [c[1] for c in st.calls if c[0] == "hdl21.prefix:Prefixed"]
        if len(pre) != 1 or len(ctor) != 1 or not isinstance(res, SRef):
            return False
        c = ctor[0]
        if c.nargs or c.extra or c.prefix is not pre[0].result or st.ghost.get(("built-from", zid(res.z))) is not c:
            return False
        fk = eng.field_key(st0, a.vpref, "prefix")
        got_pre = pre[0].vpre
        same_pre = zint(got_pre) == st0.heap.get(fk, a.vpref.z) if isinstance(got_pre, (int, SInt)) else False
        if same_pre is False:
            return False
        nk = eng.field_key(st0, a.vpref, variant)
        want = st0.heap.get(nk, a.vpref.z)
        n = c.number
        if variant == "int64_value":
            return z3.And(same_pre, zint(n) == want) if isinstance(n, (int, SInt)) and not isinstance(n, (bool, SBool)) else False
        if variant == "string_value":
            return z3.And(same_pre, n.z == want) if isinstance(n, SStr) else False
        if variant == "double_value":
            return z3.And(same_pre, n.z == want) if isinstance(n, SReal) else False
        return False
    posts = property(lambda self: [("built-from-the-record's-number-and-prefix", self.p_built)])


def prefixed_engine():
    schema = dict(SCHEMA_EXTRA)
    schema.update({"double_value": "real", "Prefixed.prefix": "int"})
    return mk_engine(contracts=[ImportPrefixCallee(), PrefixedCtor2()], schema_extra=schema, field_classes=FIELD_CLASSES)


VERIFY_PREFIXED = [ImportPrefixed()]


# ---------------------------------------------------------------------------------------------- import_primitive_params
K_PRM = "hdl21.proto.importing:import_primitive_params"
PULSE_MAP = {"v1": "v1", "v2": "v2", "td": "delay", "tr": "rise", "tf": "fall", "tpw": "width", "tper": "period"}
#  (the documented renaming, stated here on its own - the same table as on the export side, c_params.PULSE_MAP;
#   props/c11 checks that the two statements agree)


class ImportPrimitiveParams(Contract):
    """import_primitive_params(target, params): for the pulse source the parameters come back under their Hdl21 names
    (td->delay, tr->rise, tf->fall, tpw->width, tper->period, v1, v2), each value being the very object found under the
    VLSIR name, a missing one as None; every other primitive's dictionary is handed back as it is."""
    key = K_PRM
    props = ("C11", "C13")
    raises = ()

    def scenarios(self, eng):
        from hdl21.primitives import Vpulse, Vdc
        import itertools

        def mk(target, present):
            def setup(eng, st):
                params = {k: sym_ref(st, f"val_{k}", (Prefixed,)) for k in present}
                return {"target": target, "params": params}
            return Scenario(f"{target.name}/{'+'.join(present) or 'none'}", setup)
        names = list(PULSE_MAP)
        yield mk(Vpulse, names)
        yield mk(Vpulse, [])
        for k in range(len(names)):                       # each one missing, each one alone
            yield mk(Vpulse, names[:k] + names[k + 1:])
            yield mk(Vpulse, [names[k]])
        yield mk(Vdc, ["dc", "ac"])

    def p_map(self, eng, st0, st, a, res):
        from hdl21.primitives import Vpulse
        if a.target is not Vpulse:
            return res is a.params
        if not isinstance(res, dict) or sorted(res) != sorted(PULSE_MAP.values()):
            return False
        conj = []
        for vname, field in PULSE_MAP.items():
            got, want = res[field], a.params.get(vname)
            if want is None:
                conj.append(z3.BoolVal(got is None))
            else:
                conj.append(got.z == want.z if isinstance(got, SRef) else z3.BoolVal(False))
        return z3.And(conj)
    posts = property(lambda self: [("documented-renaming-inverted", self.p_map)])


def params_engine():
    return mk_engine(contracts=[], schema_extra=SCHEMA_EXTRA, field_classes=FIELD_CLASSES)


VERIFY_PARAMS = [ImportPrimitiveParams()]
