"""Contracts on hdl21/proto/importing.py (C11): import_connection_target is the inverse of the exporter's leaf rules -
a `sig` target is the module's signal of that name, a `slice` target with bounds (top, bot) is the unit-step slice
selecting exactly bits bot..top of it, an undeclared name is refused.  Composed with export_slice's postcondition
(C01: the exported (top, bot) are the first/last selected bits of a unit-step slice) the round trip is the identity on
selected bits (lemma below)."""
import z3
import vlsir.circuit_pb2 as vckt
from pyvc import *
from .common import *
from . import c_slice
from hdl21.module import Module
from hdl21.proto.importing import import_connection_target

KEY = "hdl21.proto.importing:import_connection_target"
SCHEMA_EXTRA = {"ConnectionTarget.slice": "ref", "sig": "str", "signal": "str", "ConnectionTarget.concat": "ref"}
FIELD_CLASSES = {"ConnectionTarget.slice": (vckt.Slice,), "ConnectionTarget.concat": (vckt.Concat,),
                 "namespace[]": (Signal,), "parent": (Signal,), "_inner": (SliceInner,)}


class ImportConcat(Contract):
    key = "hdl21.proto.importing:import_concat"
    pure = False
    raises = (RuntimeError, ValueError)
    returns = "ref"
    result_classes = (Concat,)

    def scenarios(self, eng):
        return []


class ImportTarget(Contract):
    key = KEY
    props = ("C11",)
    pure = False
    raises = (RuntimeError, ValueError)

    def scenarios(self, eng):
        def mk(variant):
            def setup(eng, st):
                eng.field_classes.update(FIELD_CLASSES)
                pc = sym_ref(st, "pconn", (vckt.ConnectionTarget,))
                m = sym_ref(st, "module", (Module,))
                st.assume(st.heap.get("_initialized", m.z))
                st.ghost[("oneof", zid(pc.z), "stype")] = variant
                if variant == "slice":
                    sl = st.heap.get("ConnectionTarget.slice", pc.z)
                    st.assume(z3.And(sl != NULL, st.heap.get("$alive", sl),
                                     st.heap.get("$cls", sl) == st.classid(vckt.Slice)))
                if variant == "concat":
                    cc = st.heap.get("ConnectionTarget.concat", pc.z)
                    st.assume(z3.And(cc != NULL, st.heap.get("$alive", cc),
                                     st.heap.get("$cls", cc) == st.classid(vckt.Concat)))
                # namespace values are live Signals
                q = z3.String("qn")
                ns = st.heap.get("namespace", m.z)
                v = z3.Select(ns, q)
                st.assume(z3.ForAll([q], z3.Implies(v != NULL, z3.And(st.heap.get("$alive", v),
                                                                      st.heap.get("$cls", v) == st.classid(Signal)))))
                return {"pconn": pc, "module": m}
            s = Scenario(variant or "unset", setup)
            s.expect_raise = variant is None
            return s
        for v in ("sig", "slice", "concat", None):
            yield mk(v)

    def _name(self, st0, a, variant):
        if variant == "sig":
            return st0.heap.get("sig", a.pconn.z)
        return st0.heap.get("signal", st0.heap.get("ConnectionTarget.slice", a.pconn.z))

    def p_target(self, eng, st0, st, a, res):
        variant = st0.ghost.get(("oneof", zid(a.pconn.z), "stype"))
        if variant == "concat":
            calls = [c for c in st.calls if c[0] == ImportConcat.key]
            return len(calls) == 1
        if variant not in ("sig", "slice") or not isinstance(res, SRef):
            return False
        ns = st0.heap.get("namespace", a.module.z)
        sig = z3.Select(ns, self._name(st0, a, variant))
        if variant == "sig":
            return z3.And(sig != NULL, res.z == sig)
        sl = st0.heap.get("ConnectionTarget.slice", a.pconn.z)
        bot, top = st0.heap.get("bot", sl), st0.heap.get("top", sl)
        idx = eng.read_field(st, res, "index")[0][1]
        if not isinstance(idx, SSlice):
            return False
        return z3.And(sig != NULL, st.heap.get("parent", res.z) == sig, z3.Not(st0.heap.get("$alive", res.z)),
                      zint(idx.start) == bot, zint(idx.stop) == top + 1, z3.BoolVal(idx.step is None or idx.step == 1))

    posts = property(lambda self: [("target", self.p_target)])

    def m_undeclared(self, eng, st0, a):
        variant = st0.ghost.get(("oneof", zid(a.pconn.z), "stype"))
        if variant not in ("sig", "slice"):
            return variant is None
        ns = st0.heap.get("namespace", a.module.z)
        return z3.Select(ns, self._name(st0, a, variant)) == NULL
    must_raise = property(lambda self: [("undeclared-signal-or-unset-variant", self.m_undeclared)])


def engine():
    return mk_engine(contracts=[ImportConcat()], schema_extra=SCHEMA_EXTRA, field_classes=FIELD_CLASSES,
                     inline={"hdl21.sliceable:is_sliceable"})


VERIFY = [ImportTarget()]


def roundtrip_lemma():
    """(assumptions, goal): for bounds (B, T) that export_slice can emit for a signal of width w (0 <= B <= T < w: its
    postconditions, C01), the slice import_connection_target builds - index slice(B, T+1) on the same signal (post.target
    above) - selects, by the contract of _slice_inner (C03), exactly the bits B..T in order."""
    from pyvc.pysem import SRange  # noqa: F401  (py_adjust lives in c_slice)
    w, B, T = z3.Ints("rt_w rt_B rt_T")
    s, e, n = c_slice.py_adjust(w, SInt(B), SInt(T + 1), 1)
    return [w >= 1, 0 <= B, B <= T, T < w], z3.And(zint(s) == B, zint(n) == T - B + 1)


class ImportTargetCallee(Contract):
    key = KEY
    pure = False
    raises = (RuntimeError, ValueError)
    returns = "ref"
    result_classes = (Signal, Slice, Concat)

    def scenarios(self, eng):
        return []

    def frame(self, eng, st, a):
        for f in ("_slices", "_concats"):
            if f in st.heap.schema:
                st.heap.havoc_field(f)

    def make_result(self, eng, st, a):
        r = fresh("imported", Ref)
        st.assume(z3.And(r != NULL, st.heap.get("$alive", r)))
        st.assume(z3.Or([st.heap.get("$cls", r) == st.classid(k) for k in (Signal, Slice, Concat)]))
        return SRef(r, (Signal, Slice, Concat))


@guarded("koi", "hdl21.proto.importing:import_concat")
def import_concat_obligations(max_arity=4):
    """import_concat(pconc, module): the imported concatenation's parts are the imports of the VLSIR parts in REVERSE
    order (VLSIR is most-significant first) - records of 1 to 4 parts (arity unrolled, parts symbolic)."""
    from pyvc import loader
    key = "hdl21.proto.importing:import_concat"
    ext = loader.extract(key)
    info = {"sha": ext.sha, "lines": ext.lines, "path": ext.path, "paths": 0, "scenarios": 0, "unsupported": []}
    obs = []
    for arity in range(1, max_arity + 1):
        schema = dict(SCHEMA_EXTRA)
        schema["Concat.parts"] = "py"
        eng = mk_engine(contracts=[ImportTargetCallee()], schema_extra=schema, field_classes=FIELD_CLASSES,
                        inline={"hdl21.concat:Concat.__init__", "hdl21.concatable:is_concatable"})
        st = eng.new_state()
        pc = sym_ref(st, "pconc", (vckt.Concat,))
        module = sym_ref(st, "module", (Module,))
        pparts = tuple(sym_ref(st, f"ppart{k}", (vckt.ConnectionTarget,)) for k in range(arity))
        eng.write_field(st, pc, "parts", pparts)
        eng.cuts = []
        try:
            outs = eng.run(ext, st, {"pconc": pc, "module": module})
        except Unsupported as e:
            info["unsupported"].append(f"arity {arity}: {e}")
            continue
        info["scenarios"] += 1
        for pi, (kind, s2, v) in enumerate(outs):
            info["paths"] += 1
            if kind != "ret":
                continue
            calls = [c for c in s2.calls if c[0] == KEY]
            ok = len(calls) == arity and all(isinstance(calls[j][1].pconn, SRef) and
                                             calls[j][1].pconn.z.eq(pparts[arity - 1 - j].z) for j in range(arity))
            goal = z3.BoolVal(False)
            if ok and isinstance(v, SRef) and tuple(eng.classes_of(s2, v)) != (Concat,):
                goal = z3.BoolVal(False)           # whatever was returned, it is not a Concat of the imported parts
            elif ok and isinstance(v, SRef):
                got = eng.read_field(s2, v, "parts")[0][1]
                goal = z3.BoolVal(isinstance(got, tuple) and len(got) == arity and all(isinstance(g, SRef) for g in got))
            obs.append(Obligation(f"{key}/arity{arity}/p{pi}/post.parts-in-reverse-order", "post", list(s2.pc), goal, key,
                                  f"arity{arity}", pi, {"trace": list(s2.trace), "havoc": list(s2.ghost.get("havoc", ()))}))
    return key, obs, info
