"""Contracts for hdl21/elab/passes/base.py (C08, C07, C02): the per-pass done/pending cache is exception safe, a module
whose pass-specific rewrite raised is poisoned and is refused by every later visit."""
import ast
import os
import z3
from pyvc import *
from .common import *
from hdl21.module import Module
from hdl21.instance import Instance, InstanceArray, InstanceBundle
from hdl21.bundle import BundleInstance
from hdl21.primitives import PrimitiveCall
from hdl21.external_module import ExternalModuleCall
from hdl21.elab.passes.base import ElabPass, ClassLevelCache

SCHEMA_EXTRA = {"done": "set[ref]", "pending": "set[ref]", "stack": "seq[ref]", "tops": "seq[ref]",
                "Module._elab_error": "ref", "$broken": "bool"}
INSTANTIABLE = (Module, PrimitiveCall, ExternalModuleCall)
FIELD_CLASSES = {"instances[]": (Instance,), "instarrays[]": (InstanceArray,), "instbundles[]": (InstanceBundle,),
                 "bundles[]": (BundleInstance,), "of": INSTANTIABLE, "Module._elab_error": (Exception,),
                 "stack[]": (Module, Instance), "tops[]": (Module,)}
CACHE = z3.Int("cache")
CLASS_ATTRS = {(ElabPass, "CLASS_LEVEL_CACHE"): lambda eng, st, ref: SRef(CACHE, (ClassLevelCache,))}
_m = z3.Int("qm")


def pending_same(st0, st):
    return st.heap.arr("pending") == st0.heap.arr("pending")


def done_grows(st0, st):
    d0, d1 = st0.heap.get("done", CACHE), st.heap.get("done", CACHE)
    return z3.ForAll([_m], z3.Implies(z3.Select(d0, _m), z3.Select(d1, _m)))


def pending_not_done(st0, st):
    """a module that is pending (being elaborated further up the stack) is not marked done by anything that runs below it"""
    p0 = st0.heap.get("pending", CACHE)
    d0, d1 = st0.heap.get("done", CACHE), st.heap.get("done", CACHE)
    return z3.ForAll([_m], z3.Implies(z3.Select(p0, _m), z3.Select(d1, _m) == z3.Select(d0, _m)))


def stack_same(st0, st, self_z):
    return st.heap.get("stack", self_z) == st0.heap.get("stack", self_z)


def inv_poison(st):
    """a module whose own pass-specific rewrite raised (ghost $broken) carries the error that poisons it"""
    return z3.ForAll([_m], z3.Implies(st.heap.get("$broken", _m), st.heap.get("Module._elab_error", _m) != NULL))


def inv_poison_only(st):
    """and conversely: only a module whose own pass-specific rewrite raised carries an error (a failure below it, or
    beside it, leaves a module untouched and free to be elaborated again once the design is repaired)"""
    return z3.ForAll([_m], z3.Implies(st.heap.get("Module._elab_error", _m) != NULL, st.heap.get("$broken", _m)))


def poison_kept(st0, st):
    e0, e1 = st0.heap.arr("Module._elab_error"), st.heap.arr("Module._elab_error")
    return z3.ForAll([_m], z3.Implies(e0[_m] != NULL, e1[_m] != NULL))


class ElabBase(Contract):
    pure = False
    raises = (Exception,)

    def mk_self(self, eng, st):
        eng.field_classes.update(FIELD_CLASSES)
        me = sym_ref(st, "self", (ElabPass,))
        st.assume(CACHE != NULL)
        st.assume(st.heap.get("$alive", CACHE))
        st.assume(CACHE != me.z)
        return me

    def frame(self, eng, st, a):
        st.heap.havoc_all()
        st.heap.havoc_field("$broken")

    def pre(self, eng, st, a):
        return z3.And(inv_poison(st), inv_poison_only(st))

    def common_posts(self):
        return [("pending-restored", lambda eng, st0, st, a, res: pending_same(st0, st)),
                ("done-monotone", lambda eng, st0, st, a, res: done_grows(st0, st)),
                ("stack-restored", lambda eng, st0, st, a, res: stack_same(st0, st, a.self.z)),
                ("poison-kept", lambda eng, st0, st, a, res: z3.And(inv_poison(st), poison_kept(st0, st))),
                ("poison-only-where-broken", lambda eng, st0, st, a, res: inv_poison_only(st)),
                ("pending-not-marked-done", lambda eng, st0, st, a, res: pending_not_done(st0, st))]

    def common_xposts(self):
        return [("pending-restored", lambda eng, st0, st, a, E: pending_same(st0, st)),
                ("done-monotone", lambda eng, st0, st, a, E: done_grows(st0, st)),
                ("poison-kept", lambda eng, st0, st, a, E: z3.And(inv_poison(st), poison_kept(st0, st))),
                ("poison-only-where-broken", lambda eng, st0, st, a, E: inv_poison_only(st)),
                ("pending-not-marked-done", lambda eng, st0, st, a, E: pending_not_done(st0, st))]
    posts = property(lambda self: self.common_posts())
    xposts = property(lambda self: self.common_xposts())


class Virtual(ElabBase):
    """Behavioural contract of the overridable per-pass hooks.  ASSUMED for every override in the pass sub-classes
    (they never touch the class-level cache: audited syntactically, see audit_cache_ownership), proved for the
    base-class defaults."""
    returns = "opaque"

    def __init__(self, name, argname, marks_broken=False, argclasses=(Module,)):
        self.argclasses = argclasses
        self.key = f"hdl21.elab.passes.base:ElabPass.{name}"
        self.argname = argname
        self.marks_broken = marks_broken
        self.props = ("C08",)

    def scenarios(self, eng):
        def setup(eng, st):
            me = self.mk_self(eng, st)
            return {"self": me, self.argname: sym_ref(st, "arg", self.argclasses)}
        yield Scenario("base-default", setup)

    def _mark(self, eng, st0, st, a, E):
        if self.marks_broken:   # ghost: the module may have been left half-rewritten
            st.heap.put("$broken", getattr(a, self.argname).z, z3.BoolVal(True))
        return True

    def common_xposts(self):
        base = [("pending-restored", lambda eng, st0, st, a, E: pending_same(st0, st)),
                ("done-monotone", lambda eng, st0, st, a, E: done_grows(st0, st)),
                ("pending-not-marked-done", lambda eng, st0, st, a, E: pending_not_done(st0, st))]
        if self.marks_broken:
            # the only place where inv_poison is (temporarily) broken: restored by elaborate_module_base's handler
            return base + [("poison-kept", lambda eng, st0, st, a, E: poison_kept(st0, st)),
                           ("others-not-broken", self._others), ("ghost-mark", self._mark),
                           ("poison-only-where-broken", lambda eng, st0, st, a, E: inv_poison_only(st))]
        return base + [("poison-kept", lambda eng, st0, st, a, E: z3.And(inv_poison(st), poison_kept(st0, st))),
                       ("poison-only-where-broken", lambda eng, st0, st, a, E: inv_poison_only(st))]

    def _others(self, eng, st0, st, a, E):
        me = getattr(a, self.argname).z
        return z3.ForAll([_m], z3.Implies(z3.And(st.heap.get("$broken", _m), _m != me),
                                          st.heap.get("Module._elab_error", _m) != NULL))


class Fail(Contract):
    key = "hdl21.elab.passes.base:ElabPass.fail"
    raises = (RuntimeError,)
    posts = [("never-returns", lambda eng, st0, st, a, res: False)]

    def scenarios(self, eng):
        return []


class ModuleBase(ElabBase):
    """elaborate_module_base(module)"""
    key = "hdl21.elab.passes.base:ElabPass.elaborate_module_base"
    props = ("C08", "C07", "C02")
    returns = "opaque"

    def scenarios(self, eng):
        def setup(eng, st):
            me = self.mk_self(eng, st)
            return {"self": me, "module": sym_ref(st, "module", (Module,))}
        yield Scenario("any", setup)

    def p_done(self, eng, st0, st, a, res):
        return z3.Select(st.heap.get("done", CACHE), a.module.z)

    def p_cached(self, eng, st0, st, a, res):
        """cache soundness: a module already done by this pass is returned untouched"""
        was_done = z3.Select(st0.heap.get("done", CACHE), a.module.z)
        same = z3.And([st.heap.arr(f) == st0.heap.arr(f) for f in
                       ("done", "pending", "stack", "Module._elab_error", "instances", "conns", "namespace")])
        return z3.Implies(was_done, same)

    posts = property(lambda self: self.common_posts() + [("in-done", self.p_done), ("cache-hit-untouched", self.p_cached)])
    # a module on (or below) which the pass failed is NOT recorded as done by it: the next call must reach the failure again
    xposts = property(lambda self: self.common_xposts() + [
        ("failed-module-not-marked-done", lambda eng, st0, st, a, E:
         z3.Select(st.heap.get("done", CACHE), a.module.z) == z3.Select(st0.heap.get("done", CACHE), a.module.z))])
    must_raise = property(lambda self: [("poisoned", lambda eng, st0, a:
                                         st0.heap.get("Module._elab_error", a.module.z) != NULL)])


class InstanceBase(ElabBase):
    key = "hdl21.elab.passes.base:ElabPass.elaborate_instance_base"
    props = ("C08",)
    returns = "opaque"

    def scenarios(self, eng):
        def setup(eng, st):
            me = self.mk_self(eng, st)
            return {"self": me, "inst": sym_ref(st, "inst", (Instance, InstanceArray, InstanceBundle))}
        yield Scenario("any", setup)


class Instantiable(ElabBase):
    key = "hdl21.elab.passes.base:ElabPass.elaborate_instantiable"
    props = ("C08",)
    returns = "opaque"

    def scenarios(self, eng):
        def setup(eng, st):
            me = self.mk_self(eng, st)
            return {"self": me, "of": sym_ref(st, "of", INSTANTIABLE)}
        yield Scenario("instantiable", setup)


class Tops(ElabBase):
    key = "hdl21.elab.passes.base:ElabPass.elaborate_tops"
    props = ("C08",)
    returns = "opaque"

    def scenarios(self, eng):
        def setup(eng, st):
            me = self.mk_self(eng, st)
            return {"self": me}
        yield Scenario("any", setup)


def _loop_inv(eng, st_entry, st_now):
    me = st_now.locals["self"]
    return z3.And(pending_same(st_entry, st_now), done_grows(st_entry, st_now), stack_same(st_entry, st_now, me.z),
                  inv_poison(st_now), inv_poison_only(st_now), poison_kept(st_entry, st_now),
                  pending_not_done(st_entry, st_now))


_K = "hdl21.elab.passes.base:ElabPass."
LOOPS = {(_K + "elaborate_module_base", i): LoopSpec(_loop_inv, modifies="*") for i in range(4)}
LOOPS[(_K + "elaborate_tops", 0)] = LoopSpec(_loop_inv, modifies="*")

V_MODULE = Virtual("elaborate_module", "module", marks_broken=True)
V_BUNDLE = Virtual("elaborate_bundle_instance", "inst", argclasses=(BundleInstance,))
V_PRIM = Virtual("elaborate_primitive_call", "call", argclasses=(PrimitiveCall,))
V_EXT = Virtual("elaborate_external_module", "call", argclasses=(ExternalModuleCall,))
CONTRACTS = [ModuleBase(), InstanceBase(), Instantiable(), Tops(), V_MODULE, V_BUNDLE, V_PRIM, V_EXT, Fail()]
VERIFY = [c for c in CONTRACTS if not isinstance(c, Fail)]


MUTATORS = {"add", "discard", "remove", "clear", "update", "difference_update", "intersection_update",
            "symmetric_difference_update", "pop", "append", "extend", "insert", "__setitem__", "__delitem__", "setdefault",
            "popitem"}


READERS = {"copy", "get", "keys", "values", "items", "issubset", "issuperset", "union", "intersection", "difference",
           "isdisjoint", "__contains__", "__len__", "__iter__", "index", "count"}


def _mentions(node, attr):
    return any(isinstance(n, ast.Attribute) and n.attr == attr for n in ast.walk(node))


def audit_cache_ownership(with_escapes=False):
    """Syntactic frame obligation: nothing outside ElabPass (base.py) WRITES the class-level pass caches (their pending /
    done sets) or a module's `_elab_error`.  Re-derived from the AST of every elaboration file on each run.
    A write is: an assignment / augmented assignment / deletion whose target goes through `CLASS_LEVEL_CACHE` (or is
    `<x>._elab_error`), a call of a mutating container method on an expression through `CLASS_LEVEL_CACHE`, or
    setattr/delattr naming `_elab_error`.  Reads are not writes.  Binding the cache (or one of its sets) to another name or
    passing it to a call lets it escape this audit: reported separately (undecided, not a violation).
    -> offending (file, line) list [, escapes]"""
    from pyvc import loader
    root = os.path.join(loader.REPO, "hdl21", "elab")
    bad, escapes = [], []
    for dp, _, files in os.walk(root):
        for fn in files:
            if not fn.endswith(".py"):
                continue
            path = os.path.join(dp, fn)
            if path.endswith(os.path.join("passes", "base.py")):
                continue
            tree = ast.parse(open(path).read())
            for n in ast.walk(tree):
                if isinstance(n, (ast.Assign, ast.AugAssign, ast.AnnAssign, ast.Delete)):
                    targets = n.targets if isinstance(n, (ast.Assign, ast.Delete)) else [n.target]
                    for t in targets:
                        if _mentions(t, "CLASS_LEVEL_CACHE") or (isinstance(t, ast.Attribute) and t.attr == "_elab_error"):
                            bad.append((path, n.lineno))
                    value = getattr(n, "value", None)
                    if value is not None and isinstance(n, (ast.Assign, ast.AnnAssign)) and _mentions(value, "CLASS_LEVEL_CACHE") \
                            and not isinstance(value, (ast.Compare, ast.BoolOp, ast.Call)):
                        escapes.append((path, n.lineno))
                elif isinstance(n, ast.Call):
                    f = n.func
                    if isinstance(f, ast.Attribute) and f.attr not in READERS and _mentions(f.value, "CLASS_LEVEL_CACHE"):
                        bad.append((path, n.lineno))       # a mutator, or a method of the cache object itself (reset, ...)
                    elif isinstance(f, ast.Name) and f.id in ("setattr", "delattr") and len(n.args) >= 2 and \
                            isinstance(n.args[1], ast.Constant) and n.args[1].value in ("_elab_error", "CLASS_LEVEL_CACHE"):
                        bad.append((path, n.lineno))
                    elif any(_mentions(a_, "CLASS_LEVEL_CACHE") for a_ in list(n.args) + [k.value for k in n.keywords]) and \
                            not (isinstance(f, ast.Name) and f.id in ("len", "bool", "list", "sorted", "print", "repr", "str", "isinstance")):
                        escapes.append((path, n.lineno))
    return (bad, escapes) if with_escapes else bad
