"""Contracts for hdl21/flatten.py helpers (C16)."""
import z3
from pyvc import *
from .common import *
from hdl21.module import Module
from hdl21.instance import Instance, InstanceArray, InstanceBundle
from hdl21.primitives import PrimitiveCall
from hdl21.external_module import ExternalModuleCall

FIELD_CLASSES = {"ports[]": (Signal,), "signals[]": (Signal,)}


class FindSignalOrPort(Contract):
    """_find_signal_or_port(m, name): the port of that name if there is one, else the signal, else ValueError."""
    key = "hdl21.flatten:_find_signal_or_port"
    props = ("C16",)
    raises = (ValueError,)
    returns = "ref"

    def scenarios(self, eng):
        def setup(eng, st):
            eng.field_classes.update(FIELD_CLASSES)
            m = sym_ref(st, "m", (Module,))
            return {"m": m, "name": SStr(z3.String("name"))}
        yield Scenario("any", setup)

    def p_val(self, eng, st0, st, a, res):
        p = st0.heap.get("ports", a.m.z)[zstr(a.name)]
        s = st0.heap.get("signals", a.m.z)[zstr(a.name)]
        return res.z == z3.If(p != NULL, p, s)
    posts = property(lambda self: [("port-then-signal", self.p_val)])
    reasons = property(lambda self: {ValueError: lambda eng, st0, a: z3.And(
        st0.heap.get("ports", a.m.z)[zstr(a.name)] == NULL, st0.heap.get("signals", a.m.z)[zstr(a.name)] == NULL)})
    must_raise = property(lambda self: [("absent", lambda eng, st0, a: z3.And(
        st0.heap.get("ports", a.m.z)[zstr(a.name)] == NULL, st0.heap.get("signals", a.m.z)[zstr(a.name)] == NULL))])


def engine():
    return mk_engine(contracts=CONTRACTS, field_classes=FIELD_CLASSES)


CONTRACTS = [FindSignalOrPort()]
VERIFY = CONTRACTS
