"""Contracts for hdl21/flatten.py helpers (C16)."""
import z3
from pyvc import *
from .common import *
from hdl21.module import Module
from hdl21.instance import Instance, InstanceArray, InstanceBundle
from hdl21.primitives import PrimitiveCall
from hdl21.external_module import ExternalModuleCall

FIELD_CLASSES = {"ports[]": (Signal,), "signals[]": (Signal,)}


class FindSignalOrPort(Contract):
    """_find_signal_or_port(m, name): the port of that name if there is one, else the signal, else ValueError."""
    key = "hdl21.flatten:_find_signal_or_port"
    props = ("C16",)
    raises = (ValueError,)
    returns = "ref"

    def scenarios(self, eng):
        def setup(eng, st):
            eng.field_classes.update(FIELD_CLASSES)
            m = sym_ref(st, "m", (Module,))
            return {"m": m, "name": SStr(z3.String("name"))}
        yield Scenario("any", setup)

    def p_val(self, eng, st0, st, a, res):
        p = st0.heap.get("ports", a.m.z)[zstr(a.name)]
        s = st0.heap.get("signals", a.m.z)[zstr(a.name)]
        return res.z == z3.If(p != NULL, p, s)
    posts = property(lambda self: [("port-then-signal", self.p_val)])
    reasons = property(lambda self: {ValueError: lambda eng, st0, a: z3.And(
        st0.heap.get("ports", a.m.z)[zstr(a.name)] == NULL, st0.heap.get("signals", a.m.z)[zstr(a.name)] == NULL)})
    must_raise = property(lambda self: [("absent", lambda eng, st0, a: z3.And(
        st0.heap.get("ports", a.m.z)[zstr(a.name)] == NULL, st0.heap.get("signals", a.m.z)[zstr(a.name)] == NULL))])


def engine():
    return mk_engine(contracts=CONTRACTS, field_classes=FIELD_CLASSES)


CONTRACTS = [FindSignalOrPort()]
VERIFY = CONTRACTS


# ---------------------------------------------------------------------------------------------------------------------
# Flattened names are ':'-joined instance paths.  (1) walk() refuses any instance / connected signal whose name contains
# the separator (the guard statements located in the current source, executed for an arbitrary instance / signal);
# (2) FlattenedInstance.make_name joins the path's names with ':' (paths of 1-3 instances: arity unrolled);
# (3) lemma over (1)+(2): for separator-free, non-empty segments the join is injective - two different paths (of the same
#     or of different lengths up to 3) never share a flattened name, so designer names "chosen to collide" cannot.
# ---------------------------------------------------------------------------------------------------------------------
@guarded("koi", "hdl21.flatten:walk")
def walk_guard_obligations():
    import ast
    from pyvc import loader
    from pyvc.engine import Frame
    key = "hdl21.flatten:walk"
    ext = loader.extract(key)
    info = {"sha": ext.sha, "lines": ext.lines, "path": ext.path, "paths": 0, "scenarios": 0, "unsupported": []}
    obs = []
    fors = [n for n in ext.node.body if isinstance(n, ast.For)]
    outer = [n for n in fors if "instances" in ast.unparse(n.iter)]
    name_loops = [n for n in fors if "signals" in ast.unparse(n.iter) and "ports" in ast.unparse(n.iter)]
    if len(outer) != 1:
        info["unsupported"].append("walk: instance loop not found")
        return key, obs, info
    outer = outer[0]
    inner = [n for n in outer.body if isinstance(n, ast.For)]
    guards = []
    lead = []
    for stmt in outer.body:                 # the guard statements that open the instance loop
        if isinstance(stmt, ast.If):
            lead.append(stmt)
        else:
            break
    if lead:
        guards.append(("instance-name", lead, outer.target.id if isinstance(outer.target, ast.Name) else None, Instance,
                       lambda st, r: st.heap.get("name", r.z), "ref"))
    if inner and isinstance(inner[0].target, ast.Tuple):
        body0 = inner[0].body[0]
        if isinstance(body0, ast.If):
            guards.append(("signal-name", [body0], inner[0].target.elts[1].id, Signal,
                           lambda st, r: st.heap.get("name", r.z), "ref"))
    if len(name_loops) == 1 and isinstance(name_loops[0].target, ast.Name):
        # every signal / port NAME of the module (connected or not) passes the separator check
        guards.append(("declared-name", list(name_loops[0].body), name_loops[0].target.id, None, lambda st, r: r.z, "str"))
    if len(guards) != 3:
        info["unsupported"].append(f"walk: expected the three separator guards (declared names, instance names, connected "
                                   f"signal names), found {[g[0] for g in guards]}")
    for tag, stmts, var, cls, name_of, vkind in guards:
        eng = mk_engine(field_classes=FIELD_CLASSES)
        st = eng.new_state()
        if vkind == "ref":
            obj = sym_ref(st, var, (cls,))
            st.assume(z3.Not(st.heap.get("name$none", obj.z)))
        else:
            obj = SStr(z3.String(var))
        m = sym_ref(st, "m", (Module,))
        st.locals = {var: obj, "m": m, "parents": [], "conns": {}}
        eng.frames.append(Frame(ext, ext.key))
        eng.cuts = []
        try:
            outs = eng.exec_block(stmts, st)
        except Unsupported as e:
            info["unsupported"].append(f"{tag}: {e}")
            continue
        finally:
            eng.frames.pop()
        info["scenarios"] += 1
        for pi, (kind, s2, v) in enumerate(outs):
            info["paths"] += 1
            nm = name_of(s2, obj)
            has_sep = z3.Contains(nm, z3.StringVal(":"))
            bad = z3.Or(has_sep, z3.Length(nm) == 0) if tag == "instance-name" else has_sep
            meta = {"trace": list(s2.trace), "havoc": list(s2.ghost.get("havoc", ()))}
            if kind == "exc":
                goal = z3.And(bad, z3.BoolVal(v.cls in (ValueError, NotImplementedError, TypeError, RuntimeError)))
                obs.append(Obligation(f"{key}/{tag}/p{pi}/raises-only-for-a-separator-or-empty-name", "raises", list(s2.pc),
                                      goal, key, tag, pi, meta))
            else:
                obs.append(Obligation(f"{key}/{tag}/p{pi}/post.continues-only-for-usable-names", "post", list(s2.pc),
                                      z3.Not(bad), key, tag, pi, meta))
    return key, obs, info


def join_injective_lemmas():
    """[(name, assumptions, goal)] for paths of 1..3 segments"""
    def join(xs):
        acc = xs[0]
        for x in xs[1:]:
            acc = z3.Concat(acc, z3.StringVal(":"), x)
        return acc
    out = []
    for n in (1, 2, 3):
        for m in (1, 2, 3):
            a = [z3.String(f"a{i}") for i in range(n)]
            b = [z3.String(f"b{i}") for i in range(m)]
            asm = [z3.Not(z3.Contains(x, z3.StringVal(":"))) for x in a + b] + [z3.Length(x) > 0 for x in a + b]
            goal = z3.Implies(join(a) == join(b), z3.And([x == y for x, y in zip(a, b)])) if n == m else join(a) != join(b)
            out.append((f"flattened-names-injective/{n}x{m}", asm, goal))
    return out


@guarded("koi", "hdl21.flatten:FlattenedInstance.make_name")
def make_name_obligations(max_arity=3):
    """FlattenedInstance.make_name(): ':'.join of the path's instance names ('_' for an unnamed one), paths of 1-3"""
    from pyvc import loader
    from hdl21.flatten import FlattenedInstance
    key = "hdl21.flatten:FlattenedInstance.make_name"
    ext = loader.extract(key)
    info = {"sha": ext.sha, "lines": ext.lines, "path": ext.path, "paths": 0, "scenarios": 0, "unsupported": []}
    obs = []
    for arity in range(1, max_arity + 1):
        eng = mk_engine(schema_extra={"path": "py"}, field_classes=FIELD_CLASSES)
        st = eng.new_state()
        me = sym_ref(st, "self", (FlattenedInstance,))
        path = [sym_ref(st, f"i{k}", (Instance,)) for k in range(arity)]
        eng.write_field(st, me, "path", path)
        eng.cuts = []
        try:
            outs = eng.run(ext, st, {"self": me})
        except Unsupported as e:
            info["unsupported"].append(f"arity {arity}: {e}")
            continue
        info["scenarios"] += 1
        for pi, (kind, s2, v) in enumerate(outs):
            info["paths"] += 1
            meta = {"trace": list(s2.trace), "havoc": list(s2.ghost.get("havoc", ()))}
            if kind != "ret" or not isinstance(v, (str, SStr)):
                obs.append(Obligation(f"{key}/arity{arity}/p{pi}/returns-a-name", "post", list(s2.pc), z3.BoolVal(False), key,
                                      f"arity{arity}", pi, meta))
                continue
            segs = []
            for p in path:
                none = s2.heap.get("name$none", p.z)
                nm = s2.heap.get("name", p.z)
                segs.append(z3.If(z3.Or(none, z3.Length(nm) == 0), z3.StringVal("_"), nm))
            want = segs[0]
            for sgm in segs[1:]:
                want = z3.Concat(want, z3.StringVal(":"), sgm)
            obs.append(Obligation(f"{key}/arity{arity}/p{pi}/post.colon-joined-path", "post", list(s2.pc), zstr(v) == want,
                                  key, f"arity{arity}", pi, meta))
    return key, obs, info
