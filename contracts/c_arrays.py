"""Statement-level obligations on hdl21/elab/passes/arrays.py (C01): the per-element wiring of an instance array.

The loop `for k, inst in enumerate(new_insts): ...` of ArrayFlattener.elaborate_module is located in the AST of the
current source and its body is executed symbolically for an arbitrary element k (0 <= k < n), an arbitrary element
port width w >= 1 and a connection of width n*w.  Obligations: the width check in the body cannot fail, and the slice
handed to `connect` denotes exactly bits k*w .. (k+1)*w - 1 of the connection (index 0 least significant)."""
import ast
import z3
from pyvc import *
from pyvc import loader
from pyvc.engine import Frame
from .common import *
from . import c_slice, c_width, c_export, c_elab
from .c_width import W
from hdl21.instance import Instance
from hdl21.elab.passes.arrays import ArrayFlattener

KEY = "hdl21.elab.passes.arrays:ArrayFlattener.elaborate_module"


class SliceCtor(Contract):
    """sliceable._slice(parent, index): a new Slice of `parent` carrying `index` (registered on the parent)."""
    key = "hdl21.sliceable:_slice"
    pure = False
    raises = (TypeError,)
    returns = "ref"
    result_classes = (Slice,)

    def scenarios(self, eng):
        return []

    reasons = property(lambda self: {TypeError: lambda eng, st0, a: not isinstance(a.index, (int, SInt, SSlice, slice))})

    def frame(self, eng, st, a):
        st.heap.havoc_field("_slices")

    def make_result(self, eng, st, a):
        r = st.alloc(Slice)
        st.heap.put("parent", r.z, a.parent.z)
        st.heap.put("_inner", r.z, NULL)
        idx = a.index
        eng.write_field(st, r, "index", idx if not isinstance(idx, slice) else SSlice(idx.start, idx.stop, idx.step))
        return r


class ConnectRecord(Contract):
    key = "hdl21.instance:_Instance.connect"
    pure = False
    raises = (TypeError,)
    returns = "opaque"

    def scenarios(self, eng):
        return []

    reasons = property(lambda self: {TypeError: lambda eng, st0, a: not (isinstance(a.conn, SRef) and all(
        getattr(k, "__connectable__", False) for k in eng.classes_of(st0, a.conn)))})

    def frame(self, eng, st, a):
        for f in ("conns", "_connected_ports", "all", "portrefs", "connrefs"):
            st.heap.havoc_field(f)


def find_loop(ext):
    """the `for k, inst in enumerate(new_insts)` loop whose body slices `conn`"""
    for n in ast.walk(ext.node):
        if isinstance(n, ast.For) and isinstance(n.iter, ast.Call) and getattr(n.iter.func, "id", "") == "enumerate" \
                and any(isinstance(s, ast.Subscript) for b in n.body for s in ast.walk(b)):
            return n
    return None


@guarded("oi")
def obligations():
    ext = loader.extract(KEY)
    loop = find_loop(ext)
    info = {"sha": ext.sha, "lines": ext.lines, "path": ext.path, "paths": 0, "scenarios": 1}
    if loop is None:
        return [], dict(info, unsupported=["per-element loop not found in ArrayFlattener.elaborate_module"])
    contracts = [SliceCtor(), ConnectRecord(), c_elab.Fail(),
                 Contract.__new__(Contract)]
    contracts = [SliceCtor(), ConnectRecord(), c_elab.Fail()] + c_export.SLICE_ATTRS + \
        [c_export.SliceInnerDefining()] + c_width.CONTRACTS
    fail = c_elab.Fail()
    fail.key = "hdl21.elab.passes.base:ElabPass.fail"
    eng = mk_engine(contracts=contracts, schema_extra=c_export.SCHEMA_EXTRA,
                    inline={"hdl21.sliceable:sliceable.<locals>.__getitem__"})
    eng.field_classes["parent"] = (Signal,)
    eng.field_classes["_inner"] = (SliceInner,)
    st = eng.new_state()
    n, w, k = z3.Ints("n w k")
    st.assume(z3.And(n >= 1, w >= 1, k >= 0, k < n))
    me = sym_ref(st, "self", (ArrayFlattener,))
    conn = sym_ref(st, "conn", (Signal,))
    port = sym_ref(st, "port", (Signal,))
    inst = sym_ref(st, "inst", (Instance,))
    st.assume(st.heap.get("_initialized", inst.z))
    st.assume(st.heap.get("width", port.z) == w)
    st.assume(st.heap.get("width", conn.z) == n * w)
    st.assume(W(conn.z) == n * w)
    names = {t.id for t in ast.walk(loop.target) if isinstance(t, ast.Name)}
    st.locals = {"self": me, "conn": conn, "port": port, "portname": SStr(z3.String("portname")),
                 "array": Opaque("array"), "module": Opaque("module")}
    # bind the loop targets (k, inst) to the arbitrary element
    tk, ti = loop.target.elts[0].id, loop.target.elts[1].id
    st.locals[tk] = SInt(k)
    st.locals[ti] = inst
    eng.frames.append(Frame(ext, ext.key))
    eng.cuts = []
    try:
        outs = eng.exec_block(loop.body, st)
    except Unsupported as e:
        return [], dict(info, unsupported=[f"array loop body: {e}"])
    finally:
        eng.frames.pop()
    obs = []
    # the guard of the per-element branch: entered only when the connection is exactly n port-widths wide
    guard = next((nd for nd in ast.walk(ext.node) if isinstance(nd, ast.If) and loop in nd.body), None)
    if guard is None:
        info.setdefault("unsupported", []).append("guard of the per-element branch not found")
    else:
        g_eng = mk_engine(contracts=c_width.CONTRACTS, schema_extra=dict(c_export.SCHEMA_EXTRA, n="int"))
        gst = g_eng.new_state()
        from hdl21.instance import InstanceArray
        arr = sym_ref(gst, "array", (InstanceArray,))
        gconn = sym_ref(gst, "conn", (Signal,))
        gport = sym_ref(gst, "port", (Signal,))
        gn = gst.heap.get("n", arr.z)
        gst.assume(z3.And(gn >= 1, gst.heap.get("width", gport.z) >= 1, gst.heap.get("width", gconn.z) >= 1))
        gst.locals = {"self": sym_ref(gst, "self", (ArrayFlattener,)), "array": arr, "conn": gconn, "port": gport,
                      "portname": SStr(z3.String("portname")), "module": Opaque("module"), "new_insts": Opaque("insts")}
        g_eng.frames.append(Frame(ext, ext.key))
        try:
            tests = g_eng.ev(guard.test, gst)
        except Unsupported as e:
            tests = []
            info.setdefault("unsupported", []).append(f"guard of the per-element branch: {e}")
        finally:
            g_eng.frames.pop()
        for gi, (gs2, tv) in enumerate(tests):
            if isinstance(tv, Exc):
                continue
            t = tv if isinstance(tv, bool) else g_eng.truth(gs2, tv)
            goal = z3.Implies(zbool(t), gs2.heap.get("width", gconn.z) == gn * gs2.heap.get("width", gport.z))
            obs.append(Obligation(f"{KEY}/per-element-guard/p{gi}/post.entered-only-for-n-port-widths", "post",
                                  list(gs2.pc), goal, KEY, "per-element-guard", gi,
                                  {"trace": list(gs2.trace), "havoc": list(gs2.ghost.get("havoc", ()))}))
    for pi, (kind, s2, v) in enumerate(outs):
        info["paths"] += 1
        pname = f"{KEY}/per-element-loop/p{pi}"
        for (oname, opc, goal) in s2.obligations:
            obs.append(Obligation(f"{pname}/{oname}", "callsite", opc, zbool(goal), KEY, "per-element-loop", pi,
                                  {"trace": list(s2.trace)}))
        if kind == "exc":
            # no exception may escape the body for a well-sized connection
            obs.append(Obligation(f"{pname}/raises.{v.cls.__name__}", "raises", list(s2.pc), z3.BoolVal(False), KEY,
                                  "per-element-loop", pi, {"trace": list(s2.trace)}))
            continue
        calls = [c for c in s2.calls if c[0] == ConnectRecord.key]
        ok = len(calls) == 1 and isinstance(calls[0][1].conn, SRef)
        if not ok:
            obs.append(Obligation(f"{pname}/post.connects-once", "post", list(s2.pc), z3.BoolVal(False), KEY,
                                  "per-element-loop", pi, {"trace": list(s2.trace)}))
            continue
        sl = calls[0][1].conn
        sp = c_slice.SliceInnerContract.spec(s2, NS({"slize": sl}))
        goal = z3.And(s2.heap.get("parent", sl.z) == conn.z, sp["ok"], sp["step"] == 1, sp["first"] == k * w,
                      sp["n"] == w, calls[0][1].self.z == inst.z)
        obs.append(Obligation(f"{pname}/post.element-k-gets-bits[k*w,(k+1)*w)", "post", list(s2.pc), goal, KEY,
                              "per-element-loop", pi, {"trace": list(s2.trace)}))
    return obs, info
