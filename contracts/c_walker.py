"""Contracts for hdl21/walker.py (C15): the hierarchy walk rewrites Instance.of and nothing else."""
import ast
import os
import z3
from pyvc import *
from pyvc import loader
from .common import *
from hdl21.module import Module
from hdl21.instance import Instance
from hdl21.primitives import PrimitiveCall
from hdl21.external_module import ExternalModuleCall
from hdl21.walker import HierarchyWalker

INSTANTIABLE = (Module, PrimitiveCall, ExternalModuleCall)
FIELD_CLASSES = {"of": INSTANTIABLE, "instances[]": (Instance,)}
FRAME_FIELDS = ("conns", "name", "instances", "namespace", "_connected_ports", "signals", "ports")
_r = z3.Int("qr")


def only_of_changed(st0, st):
    """everything the property protects (connections, names, hierarchy containers) is untouched"""
    return z3.And([st.heap.arr(f) == st0.heap.arr(f) for f in FRAME_FIELDS] +
                  [st.heap.arr("name$none") == st0.heap.arr("name$none")])


class Hook(Contract):
    """virtual PDK hooks: return an instantiable; ASSUMED (and audited syntactically) not to touch connections/names"""
    pure = False
    raises = (RuntimeError, TypeError, ValueError)
    returns = "ref"
    result_classes = INSTANTIABLE

    def __init__(self, name):
        self.key = f"hdl21.walker:HierarchyWalker.{name}"

    def scenarios(self, eng):
        return []

    def frame(self, eng, st, a):
        keep = {f: st.heap.arr(f) for f in FRAME_FIELDS + ("name$none", "$alive", "$cls")}
        st.heap.havoc_all()
        for f, arr in keep.items():
            st.heap.arrays[f] = arr


class WalkBase(Contract):
    pure = False
    raises = (RuntimeError, TypeError, ValueError)
    returns = "ref"
    props = ("C15",)

    def frame(self, eng, st, a):
        keep = {f: st.heap.arr(f) for f in FRAME_FIELDS + ("name$none", "$alive", "$cls")}
        st.heap.havoc_all()
        for f, arr in keep.items():
            st.heap.arrays[f] = arr
    posts = property(lambda self: [("frame", lambda eng, st0, st, a, res: only_of_changed(st0, st))])
    xposts = property(lambda self: [("frame", lambda eng, st0, st, a, E: only_of_changed(st0, st))])


class VisitInstance(WalkBase):
    key = "hdl21.walker:HierarchyWalker.visit_instance"
    result_classes = (Instance,)

    def scenarios(self, eng):
        def setup(eng, st):
            eng.field_classes.update(FIELD_CLASSES)
            me = sym_ref(st, "self", (HierarchyWalker,))
            inst = sym_ref(st, "inst", (Instance,))
            st.assume(st.heap.get("_initialized", inst.z))
            return {"self": me, "inst": inst}
        yield Scenario("any", setup)

    def p_only_of(self, eng, st0, st, a, res):
        of0, of1 = st0.heap.arr("of"), st.heap.arr("of")
        return z3.And(only_of_changed(st0, st), res.z == a.inst.z)
    posts = property(lambda self: [("frame+result", self.p_only_of)])


class VisitInstantiable(WalkBase):
    key = "hdl21.walker:HierarchyWalker.visit_instantiable"
    result_classes = INSTANTIABLE

    def scenarios(self, eng):
        def setup(eng, st):
            eng.field_classes.update(FIELD_CLASSES)
            return {"self": sym_ref(st, "self", (HierarchyWalker,)), "of": sym_ref(st, "of", INSTANTIABLE)}
        yield Scenario("instantiable", setup)

        def bad(eng, st):
            return {"self": sym_ref(st, "self", (HierarchyWalker,)), "of": sym_ref(st, "of", (Instance, Signal))}
        s = Scenario("not-instantiable", bad)
        s.expect_raise = True
        yield s
    def apply(self, eng, st, args, kwargs, node=None):
        if not isinstance(args[1], SRef):
            return [(st, Exc(TypeError, "Invalid Instance of None"))]
        return Contract.apply(self, eng, st, args, kwargs, node)
    must_raise = property(lambda self: [("not-instantiable", lambda eng, st0, a: not all(
        issubclass(k, INSTANTIABLE) for k in eng.classes_of(st0, a.of)))])


class VisitModule(WalkBase):
    key = "hdl21.walker:HierarchyWalker.visit_module"
    result_classes = (Module,)

    def scenarios(self, eng):
        def setup(eng, st):
            eng.field_classes.update(FIELD_CLASSES)
            return {"self": sym_ref(st, "self", (HierarchyWalker,)), "module": sym_ref(st, "module", (Module,))}
        yield Scenario("any", setup)


def _loop_inv(eng, st_entry, st_now):
    return only_of_changed(st_entry, st_now)


LOOPS = {("hdl21.walker:HierarchyWalker.visit_module", 0): LoopSpec(_loop_inv, modifies="*")}
HOOKS = [Hook("visit_primitive_call"), Hook("visit_external_module_call")]
CONTRACTS = [VisitInstance(), VisitInstantiable(), VisitModule()] + HOOKS
VERIFY = CONTRACTS[:3]


def engine():
    return mk_engine(contracts=CONTRACTS, loops=LOOPS, field_classes=FIELD_CLASSES)


def audit_walkers():
    """No PDK walker (sample, Sky130, GF180, ASAP7) assigns to .conns/.name of anything or calls connect/replace/
    disconnect/add: re-derived from the AST on every run."""
    files = [os.path.join(loader.REPO, "hdl21", "pdk", "sample_pdk", "pdk.py"),
             os.path.join(loader.REPO, "pdks", "Sky130", "sky130_hdl21", "pdk_logic.py"),
             os.path.join(loader.REPO, "pdks", "Gf180", "gf180_hdl21", "pdk_logic.py"),
             os.path.join(loader.REPO, "pdks", "Asap7", "asap7_hdl21", "pdk.py")]
    bad = []
    for path in files:
        tree = ast.parse(open(path).read())
        for cls in [n for n in ast.walk(tree) if isinstance(n, ast.ClassDef) and n.name.endswith("Walker")]:
            for n in ast.walk(cls):
                if isinstance(n, ast.Attribute) and isinstance(n.ctx, ast.Store) and n.attr in ("conns", "name", "of"):
                    bad.append((path, n.lineno, f"assignment to .{n.attr}"))
                if isinstance(n, ast.Call) and isinstance(n.func, ast.Attribute) and \
                        n.func.attr in ("connect", "replace", "disconnect", "add"):
                    bad.append((path, n.lineno, f"call of .{n.func.attr}()"))
    return bad
