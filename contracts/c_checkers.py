"""Soundness contracts of the checking functions (C02): a checker that returns normally has established its fact."""
import ast
import inspect
import z3
from pyvc import *
from .common import *
from . import c_elab
from .c_width import W
from hdl21.module import Module
from hdl21.instance import Instance, InstanceArray, InstanceBundle
from hdl21.bundle import BundleInstance, BundleRef, AnonymousBundle
from hdl21.noconn import NoConn
from hdl21.elab.passes.conntypes import ConnTypes, Valid, InvalidType
from hdl21.elab.passes.orphanage import Orphanage
from hdl21.elab.passes.mark_modules import MarkModules

HASWIDTH = (Signal, Slice, Concat, BundleRef, PortRef)
FIELD_CLASSES = {"_parent_module": (Module,), "Module._elaborated": (Module,)}


class GetWidth(Contract):
    """ConnTypes.get_width(conn): W(conn), or fails (NoConn / PortRef / unobtainable width)."""
    key = "hdl21.elab.passes.conntypes:ConnTypes.get_width"
    raises = (RuntimeError, ValueError)
    returns = "int"

    def scenarios(self, eng):
        return []
    posts = property(lambda self: [("width", lambda eng, st0, st, a, res: res.z == W(a.conn.z))])


class SignalsCompatible(Contract):
    """check_signals_compatible(sig, other) returns Valid only if `other` has a width and the widths are equal."""
    key = "hdl21.elab.passes.conntypes:ConnTypes.check_signals_compatible"
    props = ("C02",)
    pure = False
    raises = (RuntimeError, ValueError)
    returns = "ref"
    result_classes = (Valid, InvalidType)

    def scenarios(self, eng):
        for nm, others in (("has-width", (Signal, Slice, Concat)), ("no-width", (BundleInstance, AnonymousBundle, NoConn))):
            def setup(eng, st, others=others):
                me = sym_ref(st, "self", (ConnTypes,))
                sig = sym_ref(st, "sig", (Signal,))
                other = sym_ref(st, "other", others)
                return {"self": me, "sig": sig, "other": other}
            yield Scenario(nm, setup)

    def p_sound(self, eng, st0, st, a, res):
        is_valid = st.heap.get("$cls", res.z) == st.classid(Valid)
        haswidth = all(issubclass(k, HASWIDTH) for k in eng.classes_of(st0, a.other))
        if not haswidth:
            return z3.Not(is_valid)
        return z3.Implies(is_valid, W(a.sig.z) == W(a.other.z))

    def p_complete(self, eng, st0, st, a, res):
        """and it does not cry wolf: equal widths are Valid"""
        is_valid = st.heap.get("$cls", res.z) == st.classid(Valid)
        haswidth = all(issubclass(k, HASWIDTH) for k in eng.classes_of(st0, a.other))
        if not haswidth:
            return True
        return z3.Implies(W(a.sig.z) == W(a.other.z), is_valid)
    posts = property(lambda self: [("valid=>equal-widths", self.p_sound), ("equal-widths=>valid", self.p_complete)])


class MarkModulesContract(Contract):
    """MarkModules.elaborate_module returns only for a named module, and freezes it."""
    key = "hdl21.elab.passes.mark_modules:MarkModules.elaborate_module"
    props = ("C02", "C07")
    pure = False
    raises = (RuntimeError,)
    returns = "ref"

    def scenarios(self, eng):
        def setup(eng, st):
            eng.field_classes.update(FIELD_CLASSES)
            me = sym_ref(st, "self", (MarkModules,))
            m = sym_ref(st, "module", (Module,))
            st.assume(st.heap.get("_initialized", m.z))
            return {"self": me, "module": m}
        yield Scenario("any", setup)

    def p_named(self, eng, st0, st, a, res):
        m = a.module.z
        return z3.And(z3.Not(st0.heap.get("name$none", m)), z3.Length(st0.heap.get("name", m)) > 0,
                      st.heap.get("Module._elaborated", m) == m, res.z == m)
    posts = property(lambda self: [("named-and-frozen", self.p_named)])
    must_raise = property(lambda self: [("anonymous", lambda eng, st0, a: z3.Or(
        st0.heap.get("name$none", a.module.z), z3.Length(st0.heap.get("name", a.module.z)) == 0))])


class AssertParentage(Contract):
    """Orphanage.assert_parentage(module, attr) returns only if attr._parent_module is module."""
    key = "hdl21.elab.passes.orphanage:Orphanage.assert_parentage"
    props = ("C02",)
    raises = (RuntimeError,)
    returns = "none"

    def scenarios(self, eng):
        def setup(eng, st):
            eng.field_classes.update(FIELD_CLASSES)
            me = sym_ref(st, "self", (Orphanage,))
            m = sym_ref(st, "module", (Module,))
            attr = sym_ref(st, "attr", (Signal, BundleInstance, Instance, InstanceArray, InstanceBundle))
            return {"self": me, "module": m, "attr": attr}
        yield Scenario("any", setup)
    def apply(self, eng, st, args, kwargs, node=None):
        if not isinstance(args[2], SRef):
            return [(st, Exc(AttributeError, "NoneType._parent_module"))]
        return Contract.apply(self, eng, st, args, kwargs, node)
    posts = property(lambda self: [("owned", lambda eng, st0, st, a, res:
                                    st0.heap.get("_parent_module", a.attr.z) == a.module.z)])
    must_raise = property(lambda self: [("orphan", lambda eng, st0, a:
                                         st0.heap.get("_parent_module", a.attr.z) != a.module.z)])


class CheckConnectable(Contract):
    """Orphanage.check_connectable(module, conn): returns only if every owned leaf reached from conn belongs to module
    (Signal / BundleInstance directly; Slice via its parent; PortRef via its instance)."""
    key = "hdl21.elab.passes.orphanage:Orphanage.check_connectable"
    props = ("C02",)
    recursive = True
    raises = (RuntimeError, TypeError, AttributeError)
    returns = "none"

    def scenarios(self, eng):
        for nm, classes in (("owned", (Signal, BundleInstance)), ("slice", (Slice,)), ("portref", (PortRef,)),
                            ("noconn", (NoConn,))):
            def setup(eng, st, classes=classes):
                eng.field_classes.update(FIELD_CLASSES)
                eng.field_classes["parent"] = (Signal, Slice)
                eng.field_classes["inst"] = (Instance, InstanceArray, InstanceBundle)
                me = sym_ref(st, "self", (Orphanage,))
                m = sym_ref(st, "module", (Module,))
                conn = sym_ref(st, "conn", classes)
                return {"self": me, "module": m, "conn": conn}
            yield Scenario(nm, setup)

    @staticmethod
    def owner_ok(eng, st0, a):
        """spec: OWN(module, conn) - uninterpreted for compound connectables, defined for the leaves"""
        OWN = z3.Function("owned_by", z3.IntSort(), z3.IntSort(), z3.BoolSort())
        cl = eng.classes_of(st0, a.conn)
        c, m = a.conn.z, a.module.z
        if all(issubclass(k, (Signal, BundleInstance)) for k in cl):
            return st0.heap.get("_parent_module", c) == m
        if all(issubclass(k, Slice) for k in cl):
            return OWN(m, st0.heap.get("parent", c))
        if all(issubclass(k, PortRef) for k in cl):
            return st0.heap.get("_parent_module", st0.heap.get("inst", c)) == m
        if all(issubclass(k, NoConn) for k in cl):
            return True
        return OWN(m, c)

    def p_owned(self, eng, st0, st, a, res):
        OWN = z3.Function("owned_by", z3.IntSort(), z3.IntSort(), z3.BoolSort())
        ok = self.owner_ok(eng, st0, a)
        cl = eng.classes_of(st0, a.conn)
        if all(issubclass(k, (Signal, BundleInstance, PortRef, NoConn)) for k in cl):
            return ok
        return z3.And(ok, OWN(a.module.z, a.conn.z) == zbool(ok)) if False else ok
    posts = property(lambda self: [("owned", self.p_owned)])

    def apply(self, eng, st, args, kwargs, node=None):
        # recursive use on a parent: returns normally only if OWN(module, parent)
        out = []
        OWN = z3.Function("owned_by", z3.IntSort(), z3.IntSort(), z3.BoolSort())
        module, conn = args[1], args[2]
        if not isinstance(conn, SRef):
            return [(st, Exc(TypeError, "Unhandled Connectable"))]
        ok = st.fork()
        ok.assume(OWN(module.z, conn.z))
        out.append((ok, None))
        bad = st.fork()
        out.append((bad, Exc(RuntimeError, "orphan (recursive)")))
        return out


class ConcatWidth(Contract):
    key = "hdl21.concat:Concat.width"
    raises = (RuntimeError, ValueError)
    returns = "int"

    def scenarios(self, eng):
        return []
    posts = property(lambda self: [("width", lambda eng, st0, st, a, res: res.z == W(a.self.z))])


class SliceWidthLite(Contract):
    key = "hdl21.slice:Slice.width"
    raises = (RuntimeError, ValueError)
    returns = "int"

    def scenarios(self, eng):
        return []
    posts = property(lambda self: [("width", lambda eng, st0, st, a, res: res.z == W(a.self.z))])


BCOMPAT = z3.Function("bundles_compatible", z3.IntSort(), z3.IntSort(), z3.BoolSort())


class BundlesCompatible(Contract):
    """check_bundles_compatible(bundle, other): ASSUMED here (loops over member dictionaries; decided by the fault
    family): returns Valid only if BCOMPAT(bundle, other)."""
    key = "hdl21.elab.passes.conntypes:ConnTypes.check_bundles_compatible"
    pure = False
    raises = (RuntimeError, ValueError)
    returns = "ref"
    result_classes = (Valid, InvalidType)

    def scenarios(self, eng):
        return []
    posts = property(lambda self: [("valid=>compatible", lambda eng, st0, st, a, res: z3.Implies(
        st.heap.get("$cls", res.z) == st.classid(Valid), BCOMPAT(a.bundle.z, a.other.z))
        if isinstance(a.bundle, SRef) and isinstance(a.other, SRef) else True)])


class SignalsCompatibleCallee(SignalsCompatible):
    """as proved above, for use at call sites with any `sig` / `other`"""
    def scenarios(self, eng):
        return []

    def p_sound(self, eng, st0, st, a, res):
        is_valid = st.heap.get("$cls", res.z) == st.classid(Valid)
        if not isinstance(a.other, SRef) or not all(issubclass(k, HASWIDTH) for k in eng.classes_of(st0, a.other)):
            return z3.Not(is_valid)
        return z3.Implies(is_valid, W(a.sig.z) == W(a.other.z))
    posts = property(lambda self: [("valid=>equal-widths", self.p_sound)])


class CheckCompatible(Contract):
    """check_compatible(port, conn) returns Valid only if: conn is connectable, and either the port has a width and
    conn has the same width, or the port is a bundle instance and conn is bundle-compatible with its type.  (Bundle
    references are first resolved: recursion, abstracted by the contract itself.)"""
    key = "hdl21.elab.passes.conntypes:ConnTypes.check_compatible"
    props = ("C02",)
    pure = False
    recursive = True
    raises = (RuntimeError, ValueError)
    returns = "ref"
    result_classes = (Valid, InvalidType)

    def scenarios(self, eng):
        from hdl21.module import Module as _M
        ports = {"signal-port": (Signal,), "bundle-port": (BundleInstance,)}
        conns = {"has-width": (Signal, Slice, Concat), "bundle": (BundleInstance,), "anon": (AnonymousBundle,),
                 "not-connectable": (_M, Instance)}
        for pn, pc in ports.items():
            for cn, cc in conns.items():
                def setup(eng, st, pc=pc, cc=cc):
                    eng.field_classes.update(FIELD_CLASSES)
                    eng.field_classes["of"] = (Bundle,)
                    me = sym_ref(st, "self", (ConnTypes,))
                    port = sym_ref(st, "port", pc)
                    if pc == (BundleInstance,):
                        of = st.heap.get("of", port.z)
                        st.assume(z3.And(of != NULL, st.heap.get("$alive", of),
                                         st.heap.get("$cls", of) == st.classid(Bundle)))
                    return {"self": me, "port": port, "conn": sym_ref(st, "conn", cc)}
                yield Scenario(f"{pn}<-{cn}", setup)

    def p_sound(self, eng, st0, st, a, res):
        is_valid = st.heap.get("$cls", res.z) == st.classid(Valid)
        pcl, ccl = eng.classes_of(st0, a.port), eng.classes_of(st0, a.conn)
        if not all(getattr(k, "__connectable__", False) for k in ccl):
            return z3.Not(is_valid)
        if all(issubclass(k, Signal) for k in pcl):
            if not all(issubclass(k, HASWIDTH) for k in ccl):
                return z3.Not(is_valid)
            return z3.Implies(is_valid, W(a.port.z) == W(a.conn.z))
        of = st0.heap.get("of", a.port.z)
        same_type = st0.heap.get("of", a.conn.z) == of if all(issubclass(k, BundleInstance) for k in ccl) else False
        anon = all(issubclass(k, AnonymousBundle) for k in ccl)     # accepted as such (member checks come later)
        return z3.Implies(is_valid, z3.Or(BCOMPAT(of, a.conn.z), zbool(same_type), z3.BoolVal(anon)))
    posts = property(lambda self: [("valid=>compatible", self.p_sound)])


def compat_engine():
    from hdl21.bundle import Bundle as _B
    globals()["Bundle"] = _B
    contracts = [GetWidth(), c_elab.Fail(), ConcatWidth(), SliceWidthLite(), SignalsCompatibleCallee(),
                 BundlesCompatible()]
    return mk_engine(contracts=contracts, field_classes=FIELD_CLASSES,
                     inline={"hdl21.connect:is_connectable"})


VERIFY_COMPAT = [CheckCompatible()]


def engine():
    contracts = [GetWidth(), c_elab.Fail(), ConcatWidth(), SliceWidthLite()] + VERIFY
    eng = mk_engine(contracts=contracts, field_classes=FIELD_CLASSES)
    return eng


VERIFY = [SignalsCompatible(), MarkModulesContract(), AssertParentage(), CheckConnectable()]


def pass_list_obligations(ctx):
    """The default pass list re-runs the connection and ownership checks after the last rewriting pass, and those
    repeats are *distinct* pass classes (each ElabPass subclass has its own done-cache, so re-listing the same class is
    a no-op by elaborate_module_base's cache-hit postcondition).  Evaluated on the real Elaborator.default()."""
    from hdl21.elab.elab import Elaborator
    from hdl21.elab.passes import (InstBundleElabPass, ResolvePortRefs, BundleFlattener, ArrayFlattener, SliceResolver,
                                   ConnTypes as CT, Orphanage as OR, MarkModules as MM)
    from vcheck.core import Violation
    passes = Elaborator.default().passes
    rewriting = (InstBundleElabPass, ResolvePortRefs, BundleFlattener, ArrayFlattener, SliceResolver)
    last_rewrite = max(k for k, p in enumerate(passes) if issubclass(p, rewriting))
    obligations = {
        "passlist/no-class-listed-twice": len(set(passes)) == len(passes),
        "passlist/own-cache-per-pass": len({id(p.CLASS_LEVEL_CACHE) for p in passes}) == len(passes),
        "passlist/conntypes-after-last-rewrite": any(issubclass(p, CT) for p in passes[last_rewrite + 1:]),
        "passlist/orphanage-after-last-rewrite": any(issubclass(p, OR) for p in passes[last_rewrite + 1:]),
        "passlist/markmodules-last": issubclass(passes[-1], MM),
    }
    for name, ok in obligations.items():
        ctx.obligations += 1
        if ok:
            ctx.discharged += 1
            ctx.by_backend["exhaustive-eval"] = ctx.by_backend.get("exhaustive-eval", 0) + 1
        else:
            ctx.violations.append(Violation(name, f"default pass list violates {name}: {[p.__name__ for p in passes]}",
                                            {"property": "C02", "obligation": name,
                                             "passes": [p.__name__ for p in passes]}, True))


# ---------------------------------------------------------------------------------------------------------------------
# Orphanage: "every" member is checked.  The loop `for attr in module.namespace.values(): assert_parentage(module, attr)`
# of elaborate_module and the loop `for conn in inst.conns.values(): check_connectable(module, conn)` of check_instance
# are executed with a foreach loop contract (the body establishes the fact for an arbitrary element and modifies
# nothing, so after a normal exit it holds for all elements):
#   elaborate_module: normal exit of the first loop  =>  every namespace member has this module as its parent
#   check_instance  : normal return                  =>  check_connectable returned normally for every connection
# ---------------------------------------------------------------------------------------------------------------------
@guarded("list")
def orphanage_loop_obligations():
    import ast as _ast
    from pyvc import loader
    from pyvc.engine import Frame
    OWN = z3.Function("owned_by", z3.IntSort(), z3.IntSort(), z3.BoolSort())
    out = []
    # ---- elaborate_module, first loop
    key = "hdl21.elab.passes.orphanage:Orphanage.elaborate_module"
    ext = loader.extract(key)
    info = {"sha": ext.sha, "lines": ext.lines, "path": ext.path, "paths": 0, "scenarios": 0, "unsupported": []}
    obs = []
    loops = [n for n in ext.node.body if isinstance(n, _ast.For)]
    first = next((l for l in loops if "namespace" in _ast.unparse(l.iter)), None)
    if first is None:
        info["unsupported"].append("loop over module.namespace not found")
    else:
        all_loops = sorted([n for n in _ast.walk(ext.node) if isinstance(n, (_ast.For, _ast.While))],
                           key=lambda n: (n.lineno, n.col_offset))
        ordinal = all_loops.index(first)
        q = z3.String("qns")

        def elem_fact(eng, st, elem):
            return st.heap.get("_parent_module", elem.z) == st.locals["module"].z

        def all_fact(eng, st):
            m = st.locals["module"].z
            ns = st.heap.get("namespace", m)
            v = z3.Select(ns, q)
            return z3.ForAll([q], z3.Implies(v != NULL, st.heap.get("_parent_module", v) == m))
        spec = LoopSpec(lambda eng, a, b: z3.BoolVal(True), modifies=(), foreach=(elem_fact, all_fact))
        eng = mk_engine(contracts=[AssertParentage()], loops={(key, ordinal): spec}, field_classes=FIELD_CLASSES)
        eng.field_classes["namespace[]"] = (Signal, BundleInstance, Instance, InstanceArray, InstanceBundle)
        st = eng.new_state()
        me = sym_ref(st, "self", (Orphanage,))
        module = sym_ref(st, "module", (Module,))
        st.locals = {"self": me, "module": module}
        eng.frames.append(Frame(ext, ext.key))
        eng.cuts = []
        try:
            outs = eng.exec_block([first], st)
            cuts = list(eng.cuts)
        except Unsupported as e:
            info["unsupported"].append(f"namespace loop: {e}")
            outs, cuts = [], []
        finally:
            eng.frames.pop()
        info["scenarios"] += 1
        for pi, (kind, s2, v) in enumerate(outs):
            info["paths"] += 1
            meta = {"trace": list(s2.trace), "havoc": list(s2.ghost.get("havoc", ()))}
            for (oname, opc, goal) in s2.obligations:
                obs.append(Obligation(f"{key}/namespace-loop/p{pi}/{oname.split('/')[-1]}", "loop", opc, zbool(goal), key,
                                      "namespace-loop", pi, meta))
            if kind == "ok":
                m = module.z
                ns = s2.heap.get("namespace", m)
                k2 = z3.String("anyname")
                v2 = z3.Select(ns, k2)
                goal = z3.Implies(v2 != NULL, s2.heap.get("_parent_module", v2) == m)
                obs.append(Obligation(f"{key}/namespace-loop/p{pi}/post.every-member-owned", "post", list(s2.pc), goal, key,
                                      "namespace-loop", pi, meta))
    out.append((key, obs, info))
    # ---- check_instance
    key2 = "hdl21.elab.passes.orphanage:Orphanage.check_instance"
    ext2 = loader.extract(key2)
    info2 = {"sha": ext2.sha, "lines": ext2.lines, "path": ext2.path, "paths": 0, "scenarios": 0, "unsupported": []}
    obs2 = []
    loops2 = sorted([n for n in _ast.walk(ext2.node) if isinstance(n, (_ast.For, _ast.While))],
                    key=lambda n: (n.lineno, n.col_offset))
    if len(loops2) != 1:
        info2["unsupported"].append(f"expected one loop in check_instance, found {len(loops2)}")
    else:
        p = z3.String("qport")

        def elem_fact2(eng, st, elem):
            return OWN(st.locals["module"].z, elem.z)

        def all_fact2(eng, st):
            conns = st.heap.get("conns", st.locals["inst"].z)
            v = z3.Select(conns, p)
            return z3.ForAll([p], z3.Implies(v != NULL, OWN(st.locals["module"].z, v)))
        spec2 = LoopSpec(lambda eng, a, b: z3.BoolVal(True), modifies=(), foreach=(elem_fact2, all_fact2))
        cc = CheckConnectable()
        eng = mk_engine(contracts=[cc], loops={(key2, 0): spec2}, field_classes=FIELD_CLASSES,
                        schema_extra={"stack": "seq[ref]"})
        eng.field_classes["conns[]"] = (Signal, Slice, Concat, BundleInstance, PortRef, NoConn)
        eng.field_classes["stack[]"] = (Instance, InstanceArray, InstanceBundle, Module)
        st = eng.new_state()
        me = sym_ref(st, "self", (Orphanage,))
        module = sym_ref(st, "module", (Module,))
        inst = sym_ref(st, "inst", (Instance, InstanceArray, InstanceBundle))
        eng.cuts = []
        try:
            outs = eng.run(ext2, st, {"self": me, "module": module, "inst": inst})
        except Unsupported as e:
            info2["unsupported"].append(f"check_instance: {e}")
            outs = []
        info2["scenarios"] += 1
        for pi, (kind, s2, v) in enumerate(outs):
            info2["paths"] += 1
            meta = {"trace": list(s2.trace), "havoc": list(s2.ghost.get("havoc", ()))}
            for (oname, opc, goal) in s2.obligations:
                obs2.append(Obligation(f"{key2}/p{pi}/{oname.split('/')[-1]}", "loop", opc, zbool(goal), key2, "any", pi, meta))
            if kind == "ret":
                conns = s2.heap.get("conns", inst.z)
                k2 = z3.String("anyport")
                v2 = z3.Select(conns, k2)
                obs2.append(Obligation(f"{key2}/p{pi}/post.every-connection-checked", "post", list(s2.pc),
                                       z3.Implies(v2 != NULL, OWN(module.z, v2)), key2, "any", pi, meta))
    out.append((key2, obs2, info2))
    return out
