"""Statement-level obligations on BundleFlattener.flatten_bundle_inst_helper (C10): the direction rule.

(1) per leaf: the block `if is_port: ... else: ...; newsig.vis = vis_; newsig.direction = dir_` located in the current
    source, executed for an arbitrary leaf copy `newsig`, arbitrary `is_port`, `flip_state` and instance role:
      not a port instance            -> internal, undirected
      leaf declared as a port        -> its direction, input/output swapped iff flip_state
      role-carrying / plain leaf     -> OUTPUT if the instance's role is the leaf's source, INPUT if it is its destination,
                                        undirected otherwise (no role: undirected); never flipped
(2) per sub-bundle: the recursive call receives the same `is_port` and `flip_state XOR sub.flipped`.
By induction over the depth (1)+(2) give the rule of the property: the flip state at a leaf is the parity of the flips on
its path (the top-level call starts from the instance's own flag: flatten_bundle_inst, also checked)."""
import ast
import z3
from pyvc import *
from pyvc import loader
from pyvc.engine import Frame
from .common import *
from hdl21.bundle import BundleInstance
from hdl21.elab.passes.flatten_bundles import BundleFlattener

KEY = "hdl21.elab.passes.flatten_bundles:BundleFlattener.flatten_bundle_inst_helper"
SCHEMA_EXTRA = {"role": "ref", "src": "ref", "dest": "ref", "flipped": "bool", "port": "bool"}
IDX = {m: k for k, m in enumerate(PortDir)}
VIS = {m: k for k, m in enumerate(Visibility)}


class HelperCallee(Contract):
    key = KEY
    pure = False
    raises = (RuntimeError,)
    returns = "opaque"

    def scenarios(self, eng):
        return []


class PathAppend(Contract):
    key = "hdl21.elab.passes.flatten_bundles:Path.append"
    pure = True
    returns = "ref"

    def scenarios(self, eng):
        return []

    def make_result(self, eng, st, a):
        from hdl21.elab.passes.flatten_bundles import Path
        r = fresh("path", Ref)
        st.assume(r != NULL)
        return SRef(r, (Path,))


def _zflip(d):
    return z3.If(d == IDX[PortDir.INPUT], IDX[PortDir.OUTPUT], z3.If(d == IDX[PortDir.OUTPUT], IDX[PortDir.INPUT], d))


@guarded("koi", "hdl21.elab.passes.flatten_bundles:BundleFlattener.flatten_bundle_inst_helper")
def obligations():
    ext = loader.extract(KEY)
    info = {"sha": ext.sha, "lines": ext.lines, "path": ext.path, "paths": 0, "scenarios": 0, "unsupported": []}
    obs = []
    loops = [n for n in ext.node.body if isinstance(n, ast.For)]
    if len(loops) != 2:
        info["unsupported"].append(f"expected the leaf loop and the sub-bundle loop, found {len(loops)} loops")
        return KEY, obs, info
    leaf_loop, sub_loop = loops
    # ---- (1) the direction block of the leaf loop
    block = []
    for stmt in leaf_loop.body:
        if isinstance(stmt, ast.If) and isinstance(stmt.test, ast.Name) and stmt.test.id == "is_port":
            block.append(stmt)
        elif block and isinstance(stmt, ast.Assign) and isinstance(stmt.targets[0], ast.Attribute) and \
                getattr(stmt.targets[0].value, "id", "") == "newsig" and stmt.targets[0].attr in ("vis", "direction"):
            block.append(stmt)
    if len(block) != 3:
        info["unsupported"].append("direction block of the leaf loop not found")
    else:
        eng = mk_engine(schema_extra=SCHEMA_EXTRA, inline={"hdl21.signal:PortDir.flipped"})
        eng.field_classes.update({"role": (object,), "src": (object,), "dest": (object,)})
        st = eng.new_state()
        me = sym_ref(st, "self", (BundleFlattener,))
        bi = sym_ref(st, "bundle_inst", (BundleInstance,))
        newsig = sym_ref(st, "newsig", (Signal,))
        d0 = st.heap.get("direction", newsig.z)
        v0 = st.heap.get("vis", newsig.z)
        st.assume(z3.And(d0 >= 0, d0 < len(IDX), v0 >= 0, v0 < len(VIS)))
        is_port, flip = z3.Bool("is_port"), z3.Bool("flip_state")
        st.locals = {"self": me, "bundle_inst": bi, "newsig": newsig, "is_port": SBool(is_port), "flip_state": SBool(flip)}
        st0 = st.fork()
        eng.frames.append(Frame(ext, ext.key))
        eng.cuts = []
        try:
            outs = eng.exec_block(block, st)
        except Unsupported as e:
            info["unsupported"].append(f"direction block: {e}")
            outs = []
        finally:
            eng.frames.pop()
        if outs:
            info["scenarios"] += 1
        role = st0.heap.get("role", bi.z)
        src, dest = st0.heap.get("src", newsig.z), st0.heap.get("dest", newsig.z)
        declared_port = v0 == VIS[Visibility.PORT]
        by_role = z3.If(role == NULL, IDX[PortDir.NONE],
                        z3.If(role == src, IDX[PortDir.OUTPUT], z3.If(role == dest, IDX[PortDir.INPUT], IDX[PortDir.NONE])))
        want_dir = z3.If(is_port, z3.If(declared_port, z3.If(flip, _zflip(d0), d0), by_role), IDX[PortDir.NONE])
        want_vis = z3.If(is_port, VIS[Visibility.PORT], VIS[Visibility.INTERNAL])
        for pi, (kind, s2, v) in enumerate(outs):
            info["paths"] += 1
            meta = {"trace": list(s2.trace), "havoc": list(s2.ghost.get("havoc", ()))}
            if kind == "exc" and v.cls in (NameError, UnboundLocalError):
                # the block now reads a local that is set earlier in the loop body, outside the slice executed here
                info["unsupported"].append(f"direction block depends on a local defined outside it ({v.note})")
                continue
            if kind == "exc":
                obs.append(Obligation(f"{KEY}/leaf-direction/p{pi}/raises.{v.cls.__name__}", "raises", list(s2.pc),
                                      z3.BoolVal(False), KEY, "leaf-direction", pi, meta))
                continue
            goal = z3.And(s2.heap.get("direction", newsig.z) == want_dir, s2.heap.get("vis", newsig.z) == want_vis)
            obs.append(Obligation(f"{KEY}/leaf-direction/p{pi}/post.direction-rule", "post", list(s2.pc), goal, KEY,
                                  "leaf-direction", pi, meta))
    # ---- (2) the sub-bundle loop body
    from hdl21.elab.passes.flatten_bundles import Path
    eng = mk_engine(contracts=[HelperCallee(), PathAppend()], schema_extra=dict(SCHEMA_EXTRA, segs="py"))
    st = eng.new_state()
    me = sym_ref(st, "self", (BundleFlattener,))
    sub = sym_ref(st, getattr(sub_loop.target, "id", "sub_bundle_inst"), (BundleInstance,))
    st.assume(z3.Not(st.heap.get("name$none", sub.z)))
    is_port, flip = z3.Bool("is_port"), z3.Bool("flip_state")

    class _Scope:
        pass
    st.locals = {"self": me, sub_loop.target.id: sub, "is_port": SBool(is_port), "flip_state": SBool(flip),
                 "path": sym_ref(st, "path", (Path,)), "scope": Opaque("scope")}
    st0 = st.fork()
    eng.frames.append(Frame(ext, ext.key))
    eng.cuts = []
    try:
        outs = eng.exec_block(sub_loop.body, st)
    except Unsupported as e:
        info["unsupported"].append(f"sub-bundle loop body: {e}")
        outs = []
    finally:
        eng.frames.pop()
    if outs:
        info["scenarios"] += 1
    for pi, (kind, s2, v) in enumerate(outs):
        info["paths"] += 1
        calls = [c for c in s2.calls if c[0] == KEY]
        if kind == "exc" and not calls:
            continue
        meta = {"trace": list(s2.trace), "havoc": list(s2.ghost.get("havoc", ()))}
        goal = z3.BoolVal(False)
        if len(calls) == 1:
            a = calls[0][1]
            try:
                goal = z3.And(zbool(a.is_port) == is_port,
                              zbool(a.flip_state) == z3.Xor(flip, st0.heap.get("flipped", sub.z)),
                              a.bundle_inst.z == sub.z, z3.BoolVal(a.is_this_top_level is False))
            except Exception:
                goal = z3.BoolVal(False)
        obs.append(Obligation(f"{KEY}/sub-bundle/p{pi}/post.same-portness,flip-parity", "post", list(s2.pc), goal, KEY,
                              "sub-bundle", pi, meta))
    return KEY, obs, info


class TopLevel(Contract):
    """flatten_bundle_inst(bundle_inst, path): starts the recursion from the instance's own port and flip flags"""
    key = "hdl21.elab.passes.flatten_bundles:BundleFlattener.flatten_bundle_inst"
    props = ("C10",)
    pure = False
    raises = (RuntimeError,)
    returns = "opaque"

    def scenarios(self, eng):
        def setup(eng, st):
            return {"self": sym_ref(st, "self", (BundleFlattener,)), "bundle_inst": sym_ref(st, "bi", (BundleInstance,)),
                    "path": Opaque("path")}
        yield Scenario("any-instance", setup)

    def p_start(self, eng, st0, st, a, res):
        calls = [c for c in st.calls if c[0] == KEY]
        if len(calls) != 1:
            return False
        c = calls[0][1]
        return z3.And(zbool(c.is_port) == st0.heap.get("port", a.bundle_inst.z),
                      zbool(c.flip_state) == st0.heap.get("flipped", a.bundle_inst.z), c.bundle_inst.z == a.bundle_inst.z,
                      z3.BoolVal(c.is_this_top_level is True))
    posts = property(lambda self: [("starts-from-own-flags", self.p_start)])


def top_engine():
    return mk_engine(contracts=[HelperCallee()], schema_extra=SCHEMA_EXTRA)


VERIFY_TOP = [TopLevel()]


# ------------------------------------------------------------------------------------------------ replace_bundle_conn
# "both sides of every bundle connection agree on which flattened port carries which member": the per-member loop of
# replace_bundle_conn, for an arbitrary (path, flat_port) of the CHILD's flattened bundle port, makes exactly one
# connection: to the child's port of flat_port's OWN name (the name that leaf received when the child was flattened -
# nothing re-derived), of the parent-side signal filed under the SAME path.
RKEY = "hdl21.elab.passes.flatten_bundles:BundleFlattener.replace_bundle_conn"


class ConnectRecorded(Contract):
    """connect() as a recorded event (its own contract is proved under C04; its refusal of a non-connectable is a loud
    way out and not modelled here)"""
    key = "hdl21.instance:_Instance.connect"
    pure = False
    raises = ()
    returns = "opaque"

    def scenarios(self, eng):
        return []

    def frame(self, eng, st, a):
        for f in ("conns", "_connected_ports", "all", "portrefs", "connrefs"):
            st.heap.havoc_field(f)


@guarded("koi", RKEY)
def replace_conn_obligations():
    from hdl21.instance import Instance
    from hdl21.elab.passes.flatten_bundles import Path, BundleScope
    from . import c_names, c_elab
    ext = loader.extract(RKEY)
    info = {"sha": ext.sha, "lines": ext.lines, "path": ext.path, "paths": 0, "scenarios": 0, "unsupported": []}
    obs = []
    loops = [n for n in ext.node.body if isinstance(n, ast.For)]
    if len(loops) != 1:
        info["unsupported"].append(f"expected one per-member loop, found {len(loops)}")
        return RKEY, obs, info
    loop = loops[0]
    tgt = loop.target
    it = loop.iter
    per_item = isinstance(tgt, ast.Tuple) and len(tgt.elts) == 2 and isinstance(it, ast.Call) and \
        isinstance(it.func, ast.Attribute) and it.func.attr == "items"
    per_key = isinstance(tgt, ast.Name) and (
        (isinstance(it, ast.Call) and isinstance(it.func, ast.Attribute) and it.func.attr == "keys") or
        isinstance(it, ast.Attribute))
    if not (per_item or per_key):
        info["unsupported"].append("the per-member loop no longer runs over the flattened port's (path, signal) pairs")
        return RKEY, obs, info
    eng = mk_engine(contracts=[ConnectRecorded(), c_names.Flatname(), c_elab.Fail(), c_names.PathToName()],
                    schema_extra={"BundleScope.signals": "map[key,ref]"})
    st = eng.new_state()
    me = sym_ref(st, "self", (BundleFlattener,))
    inst = sym_ref(st, "inst", (Instance,))
    flat = sym_ref(st, "flat", (BundleScope,))
    fbp = sym_ref(st, "flat_bundle_port", (BundleScope,))
    path = sym_ref(st, "path", (Path,))
    flat_port = sym_ref(st, "flat_port", (Signal,))
    st.assume(z3.Not(st.heap.get("name$none", flat_port.z)))
    st.assume(z3.Not(st.heap.get("name$none", inst.z)))
    # (path, flat_port) is an entry of the child's flattened port
    fsig = st.heap.get("BundleScope.signals", fbp.z)
    pk = eng.elem_key(st, path)
    st.assume(z3.Select(fsig, pk) == flat_port.z)
    st.assume(flat.z != fbp.z)
    st.locals = {"self": me, "inst": inst, "portname": SStr(z3.String("portname")), "flat": flat,
                 "flat_bundle_port": fbp}
    if per_item:
        st.locals[tgt.elts[0].id] = path
        st.locals[tgt.elts[1].id] = flat_port
    else:
        st.locals[tgt.id] = path
    st0 = st.fork()
    eng.frames.append(Frame(ext, ext.key))
    eng.cuts = []
    try:
        outs = eng.exec_block(loop.body, st)
    except Unsupported as e:
        info["unsupported"].append(f"per-member loop body: {e}")
        outs = []
    finally:
        eng.frames.pop()
    if outs:
        info["scenarios"] += 1
    want_name = st0.heap.get("name", flat_port.z)
    want_conn = z3.Select(st0.heap.get("BundleScope.signals", flat.z), pk)
    for pi, (kind, s2, v) in enumerate(outs):
        info["paths"] += 1
        meta = {"trace": list(s2.trace), "havoc": list(s2.ghost.get("havoc", ()))}
        if kind == "exc" and v.cls in (NameError, UnboundLocalError):
            info["unsupported"].append(f"the loop body reads a local defined outside it ({v.note})")
            continue
        calls = [c for c in s2.calls if c[0] == ConnectRecorded.key]
        if kind == "exc":
            # refusing is allowed only when the parent side has no signal under this path
            obs.append(Obligation(f"{RKEY}/member/p{pi}/raises-only-if-missing", "raises", list(s2.pc),
                                  want_conn == NULL, RKEY, "member", pi, meta))
            continue
        goal = z3.BoolVal(False)
        if len(calls) == 1:
            a = calls[0][1]
            try:
                goal = z3.And(a.self.z == inst.z, zstr(a.portname) == want_name, a.conn.z == want_conn, want_conn != NULL)
            except Exception:
                goal = z3.BoolVal(False)
        obs.append(Obligation(f"{RKEY}/member/p{pi}/post.own-name,same-path", "post", list(s2.pc), goal, RKEY, "member",
                              pi, meta))
    return RKEY, obs, info
