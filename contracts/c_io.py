"""Contracts for the interface-selection helpers (C07): which view of a child's ports a parent sees."""
import z3
from pyvc import *
from .common import *
from hdl21.module import Module
from hdl21.primitives import PrimitiveCall
from hdl21.external_module import ExternalModuleCall
from hdl21.bundle import BundleInstance

SCHEMA_EXTRA = {"_pre_flattening_io": "optmap[str,ref]"}
FIELD_CLASSES = {"_pre_flattening_io[]": (Signal, BundleInstance), "$map[str,ref][]": (Signal, BundleInstance)}
IO = z3.Function("io_now", z3.IntSort(), z3.ArraySort(z3.StringSort(), z3.IntSort()))   # spec: io(i) as it is now


class Io(Contract):
    key = "hdl21.instantiable:io"
    raises = ()

    def scenarios(self, eng):
        return []

    def make_result(self, eng, st, a):
        loc = st.alloc_container("map[str,ref]")
        st.heap.put(loc.field, loc.owner, IO(a.i.z))
        return loc


def content(st, v):
    return st.heap.get(v.field, v.owner)


def bundle_level(st0, i_z):
    """the module's interface as the designer wrote it: the snapshot taken before bundle flattening when there is
    one, the current ports (still bundle-level) otherwise"""
    flat = z3.Not(st0.heap.get("_pre_flattening_io$none", i_z))
    return z3.If(flat, st0.heap.get("_pre_flattening_io", i_z), IO(i_z))


class IoForResolving(Contract):
    """io_for_resolving(i): for a Module, always its bundle-level interface, whatever passes it has been through."""
    key = "hdl21.elab.passes.portrefs:io_for_resolving"
    props = ("C07",)
    pure = False
    raises = (TypeError,)

    def scenarios(self, eng):
        def setup(eng, st):
            eng.field_classes.update(FIELD_CLASSES)
            return {"i": sym_ref(st, "i", (Module,))}
        yield Scenario("module", setup)

        def bad(eng, st):
            return {"i": sym_ref(st, "i", (Signal, BundleInstance))}
        s = Scenario("not-instantiable", bad)
        s.expect_raise = True
        yield s

    def p_iface(self, eng, st0, st, a, res):
        if not isinstance(res, SLoc):
            return False
        fresh = z3.Not(st0.heap.get("$alive", res.owner))     # a copy: consumers cannot disturb the module
        return z3.And(content(st, res) == bundle_level(st0, a.i.z), fresh)
    posts = property(lambda self: [("bundle-level-interface", self.p_iface)])
    must_raise = property(lambda self: [("not-instantiable", lambda eng, st0, a: not all(
        issubclass(k, (Module, PrimitiveCall, ExternalModuleCall)) for k in eng.classes_of(st0, a.i)))])


class IoForChecking(Contract):
    """io_for_checking(parent, i): a parent that has not been flattened sees the child's bundle-level interface; a
    flattened parent sees the child's flattened one, and a flattened parent over an unflattened child is refused."""
    key = "hdl21.elab.passes.conntypes:io_for_checking"
    props = ("C07",)
    pure = False
    raises = (TypeError, RuntimeError)

    def scenarios(self, eng):
        def setup(eng, st):
            eng.field_classes.update(FIELD_CLASSES)
            p = sym_ref(st, "parent", (Module,))
            i = sym_ref(st, "i", (Module,))
            return {"parent": p, "i": i}
        yield Scenario("modules", setup)

    def p_iface(self, eng, st0, st, a, res):
        if not isinstance(res, SLoc):
            return False
        pflat = z3.Not(st0.heap.get("_pre_flattening_io$none", a.parent.z))
        return z3.And(z3.Implies(z3.Not(pflat), content(st, res) == bundle_level(st0, a.i.z)),
                      z3.Implies(pflat, content(st, res) == IO(a.i.z)))
    posts = property(lambda self: [("interface-by-parent-state", self.p_iface)])

    def _bad(self, eng, st0, a):
        return z3.And(z3.Not(st0.heap.get("_pre_flattening_io$none", a.parent.z)),
                      st0.heap.get("_pre_flattening_io$none", a.i.z))
    must_raise = property(lambda self: [("child-not-elaborated", self._bad)])
    reasons = property(lambda self: {RuntimeError: self._bad, TypeError: lambda eng, st0, a: False})


def engine():
    return mk_engine(contracts=[Io(), IoForResolving(), IoForChecking()], schema_extra=SCHEMA_EXTRA,
                     field_classes=FIELD_CLASSES)


VERIFY = [IoForResolving(), IoForChecking()]
