"""Contracts for the group-handling helpers of hdl21/elab/passes/portrefs.py (C01, C02)."""
import z3
from pyvc import *
from .common import *
from . import c_elab
from hdl21.module import Module
from hdl21.noconn import NoConn
from hdl21.bundle import BundleInstance, BundleRef, AnonymousBundle
from hdl21.elab.passes.portrefs import ResolvePortRefs

SOURCES = (Signal, Slice, Concat, BundleInstance, BundleRef, AnonymousBundle)
MEMBERS = (PortRef, NoConn) + SOURCES


def _is_source(eng, st, ref):
    """z3: the dynamic class of `ref` is one of the declared-connectable kinds"""
    ids = sorted({st.classid(k) for k in SOURCES} | {i for k, i in st.classids.items() if issubclass(k, SOURCES)})
    return z3.Or([st.heap.get("$cls", ref.z) == i for i in ids])


class FindSource(Contract):
    """find_source(group): None iff the group holds nothing but port references (and no-connects); the one declared
    connectable - Signal, Slice, Concat, bundle instance / reference / anonymous bundle - if there is exactly one; more
    than one is refused."""
    key = "hdl21.elab.passes.portrefs:ResolvePortRefs.find_source"
    props = ("C01",)
    raises = (RuntimeError,)

    def scenarios(self, eng):
        for n in (1, 2, 3):
            def setup(eng, st, n=n):
                eng.field_classes["inst"] = (Module,)
                me = sym_ref(st, "self", (ResolvePortRefs,))
                group = [sym_ref(st, f"g{k}", MEMBERS) for k in range(n)]
                for a in range(n):
                    for b in range(a + 1, n):
                        st.assume(group[a].z != group[b].z)
                return {"self": me, "group": group}
            yield Scenario(f"group-of-{n}", setup)

    def _count(self, eng, st, a):
        return z3.Sum([z3.If(_is_source(eng, st, g), 1, 0) for g in a.group])

    def p_source(self, eng, st0, st, a, res):
        n = self._count(eng, st, a)
        if res is None:
            return n == 0
        if not isinstance(res, SRef):
            return False
        return z3.And(n == 1, z3.Or([z3.And(_is_source(eng, st, g), res.z == g.z) for g in a.group]))
    posts = property(lambda self: [("the-declared-source", self.p_source)])

    def x_many(self, eng, st0, st, a, E):
        return self._count(eng, st, a) >= 2
    xposts = property(lambda self: [("only-for-several-sources", self.x_many)])


class ReplaceNoconn(Contract):
    key = "hdl21.elab.passes.portrefs:ResolvePortRefs.replace_noconn"
    pure = False
    raises = (RuntimeError, TypeError, ValueError)
    returns = "none"

    def scenarios(self, eng):
        return []

    def frame(self, eng, st, a):
        st.heap.havoc_all()


class HandleNoconn(Contract):
    """handle_noconn(module, group): returns only for a group of exactly two - the no-connect and the one port it is
    connected to - and replaces that no-connect on that port; a no-connect that is also referenced elsewhere (three or
    more members) is refused."""
    key = "hdl21.elab.passes.portrefs:ResolvePortRefs.handle_noconn"
    props = ("C01", "C02")
    pure = False
    raises = (RuntimeError, TypeError, ValueError)

    def scenarios(self, eng):
        for n in (2, 3, 4):
            for pos in range(min(n, 2)):
                def setup(eng, st, n=n, pos=pos):
                    me = sym_ref(st, "self", (ResolvePortRefs,))
                    module = sym_ref(st, "module", (Module,))
                    group = [sym_ref(st, f"g{k}", (NoConn,) if k == pos else (PortRef,)) for k in range(n)]
                    return {"self": me, "module": module, "group": group}
                s = Scenario(f"group-of-{n},noconn-at-{pos}", setup)
                s.expect_raise = n > 2
                yield s

    def p_two(self, eng, st0, st, a, res):
        if len(a.group) != 2:
            return False
        calls = [c for c in st.calls if c[0] == ReplaceNoconn.key]
        if len(calls) != 1:
            return False
        nc = [g for g in a.group if issubclass(eng.classes_of(st0, g)[0], NoConn)][0]
        pr = [g for g in a.group if g is not nc][0]
        return calls[0][1].noconn is nc and calls[0][1].portref is pr
    posts = property(lambda self: [("exactly-noconn-and-its-port", self.p_two)])
    must_raise = property(lambda self: [("referenced-elsewhere", lambda eng, st0, a: len(a.group) > 2)])


def engine():
    return mk_engine(contracts=[FindSource(), HandleNoconn(), ReplaceNoconn(), c_elab.Fail()])


VERIFY = [FindSource(), HandleNoconn()]
