"""Contracts for the group-handling helpers of hdl21/elab/passes/portrefs.py (C01, C02)."""
import z3
from pyvc import *
from .common import *
from . import c_elab
from hdl21.module import Module
from hdl21.noconn import NoConn
from hdl21.bundle import BundleInstance, BundleRef, AnonymousBundle
from hdl21.elab.passes.portrefs import ResolvePortRefs

SOURCES = (Signal, Slice, Concat, BundleInstance, BundleRef, AnonymousBundle)
MEMBERS = (PortRef, NoConn) + SOURCES


def _is_source(eng, st, ref):
    """z3: the dynamic class of `ref` is one of the declared-connectable kinds"""
    ids = sorted({st.classid(k) for k in SOURCES} | {i for k, i in st.classids.items() if issubclass(k, SOURCES)})
    return z3.Or([st.heap.get("$cls", ref.z) == i for i in ids])


class FindSource(Contract):
    """find_source(group): None iff the group holds nothing but port references (and no-connects); the one declared
    connectable - Signal, Slice, Concat, bundle instance / reference / anonymous bundle - if there is exactly one; more
    than one is refused."""
    key = "hdl21.elab.passes.portrefs:ResolvePortRefs.find_source"
    props = ("C01",)
    raises = (RuntimeError,)

    def scenarios(self, eng):
        for n in (1, 2, 3):
            def setup(eng, st, n=n):
                eng.field_classes["inst"] = (Module,)
                me = sym_ref(st, "self", (ResolvePortRefs,))
                group = [sym_ref(st, f"g{k}", MEMBERS) for k in range(n)]
                for a in range(n):
                    for b in range(a + 1, n):
                        st.assume(group[a].z != group[b].z)
                return {"self": me, "group": group}
            yield Scenario(f"group-of-{n}", setup)

    def _count(self, eng, st, a):
        return z3.Sum([z3.If(_is_source(eng, st, g), 1, 0) for g in a.group])

    def p_source(self, eng, st0, st, a, res):
        n = self._count(eng, st, a)
        if res is None:
            return n == 0
        if not isinstance(res, SRef):
            return False
        return z3.And(n == 1, z3.Or([z3.And(_is_source(eng, st, g), res.z == g.z) for g in a.group]))
    posts = property(lambda self: [("the-declared-source", self.p_source)])

    def x_many(self, eng, st0, st, a, E):
        return self._count(eng, st, a) >= 2
    xposts = property(lambda self: [("only-for-several-sources", self.x_many)])


class ReplaceNoconn(Contract):
    key = "hdl21.elab.passes.portrefs:ResolvePortRefs.replace_noconn"
    pure = False
    raises = (RuntimeError, TypeError, ValueError)
    returns = "none"

    def scenarios(self, eng):
        return []

    def frame(self, eng, st, a):
        st.heap.havoc_all()


class HandleNoconn(Contract):
    """handle_noconn(module, group): returns only for a group of exactly two - the no-connect and the one port it is
    connected to - and replaces that no-connect on that port; a no-connect that is also referenced elsewhere (three or
    more members) is refused."""
    key = "hdl21.elab.passes.portrefs:ResolvePortRefs.handle_noconn"
    props = ("C01", "C02")
    pure = False
    raises = (RuntimeError, TypeError, ValueError)

    def scenarios(self, eng):
        for n in (2, 3, 4):
            for pos in range(min(n, 2)):
                def setup(eng, st, n=n, pos=pos):
                    me = sym_ref(st, "self", (ResolvePortRefs,))
                    module = sym_ref(st, "module", (Module,))
                    group = [sym_ref(st, f"g{k}", (NoConn,) if k == pos else (PortRef,)) for k in range(n)]
                    return {"self": me, "module": module, "group": group}
                s = Scenario(f"group-of-{n},noconn-at-{pos}", setup)
                s.expect_raise = n > 2
                yield s

    def p_two(self, eng, st0, st, a, res):
        if len(a.group) != 2:
            return False
        calls = [c for c in st.calls if c[0] == ReplaceNoconn.key]
        if len(calls) != 1:
            return False
        nc = [g for g in a.group if issubclass(eng.classes_of(st0, g)[0], NoConn)][0]
        pr = [g for g in a.group if g is not nc][0]
        return calls[0][1].noconn is nc and calls[0][1].portref is pr
    posts = property(lambda self: [("exactly-noconn-and-its-port", self.p_two)])
    must_raise = property(lambda self: [("referenced-elsewhere", lambda eng, st0, a: len(a.group) > 2)])


def engine():
    return mk_engine(contracts=[FindSource(), HandleNoconn(), ReplaceNoconn(), c_elab.Fail()])


VERIFY = [FindSource(), HandleNoconn()]


# ---------------------------------------------------------------------------------------------------------------------
# resolve_portref(pref, to): idempotent for the same referent, refuses a second different one, otherwise records the
# referent, connects the referring instance's own port to it (through _Instance.connect) and hands the dependents over
# to update_ref_deps - in that order and exactly once each.
# ---------------------------------------------------------------------------------------------------------------------
from hdl21.instance import Instance, InstanceArray, InstanceBundle


class ConnectCallee(Contract):
    key = "hdl21.instance:_Instance.connect"
    pure = False
    raises = (TypeError,)
    returns = "opaque"

    def scenarios(self, eng):
        return []

    def frame(self, eng, st, a):
        for f in ("conns", "_connected_ports", "all", "portrefs", "connrefs"):
            st.heap.havoc_field(f)


class UpdateRefDeps(Contract):
    key = "hdl21.elab.helpers.resolve_ref_types:update_ref_deps"
    pure = False
    raises = (RuntimeError, TypeError, KeyError)
    returns = "none"

    def scenarios(self, eng):
        return []

    def frame(self, eng, st, a):
        for f in ("conns", "_connected_ports", "parent", "parts", "_inner"):
            if f in st.heap.schema:
                st.heap.havoc_field(f)


class ResolvePortref(Contract):
    key = "hdl21.elab.passes.portrefs:resolve_portref"
    props = ("C01", "C04")
    pure = False
    raises = (ValueError, TypeError, RuntimeError, KeyError)
    returns = "none"

    def scenarios(self, eng):
        def setup(eng, st):
            eng.field_classes["inst"] = (Instance, InstanceArray, InstanceBundle)
            eng.field_classes["resolved"] = SOURCES
            pref = sym_ref(st, "pref", (PortRef,))
            inst = st.heap.get("inst", pref.z)
            st.assume(z3.And(inst != NULL, st.heap.get("$alive", inst), st.heap.get("_initialized", inst)))
            st.assume(z3.Or([st.heap.get("$cls", inst) == st.classid(k) for k in eng.field_classes["inst"]]))
            return {"pref": pref, "to": sym_ref(st, "to", SOURCES)}
        yield Scenario("any-state-of-the-reference", setup)

    def p_resolved(self, eng, st0, st, a, res):
        r0 = st0.heap.get("resolved", a.pref.z)
        connects = [c for c in st.calls if c[0] == ConnectCallee.key]
        updates = [c for c in st.calls if c[0] == UpdateRefDeps.key]
        already = r0 == a.to.z
        if not connects and not updates:
            # nothing done: only right when it was resolved to this very object already
            return z3.And(already, st.heap.arr("resolved") == st0.heap.arr("resolved"))
        ok = len(connects) == 1 and len(updates) == 1 and connects[0][1].conn is a.to and updates[0][1].ref is a.pref \
            and updates[0][1].resolved is a.to and isinstance(connects[0][1].self, SRef)
        if not ok:
            return False
        return z3.And(r0 == NULL, st.heap.get("resolved", a.pref.z) == a.to.z,
                      connects[0][1].self.z == st0.heap.get("inst", a.pref.z),
                      zstr(connects[0][1].portname) == st0.heap.get("portname", a.pref.z))
    posts = property(lambda self: [("recorded-connected-propagated", self.p_resolved)])
    reasons = property(lambda self: {ValueError: lambda eng, st0, a: z3.And(
        st0.heap.get("resolved", a.pref.z) != NULL, st0.heap.get("resolved", a.pref.z) != a.to.z)})
    must_raise = property(lambda self: [("already-resolved-to-another", lambda eng, st0, a: z3.And(
        st0.heap.get("resolved", a.pref.z) != NULL, st0.heap.get("resolved", a.pref.z) != a.to.z))])


def resolve_engine():
    return mk_engine(contracts=[ConnectCallee(), UpdateRefDeps()])


VERIFY_RESOLVE = [ResolvePortref()]


@guarded("koi", "hdl21.elab.helpers.resolve_ref_types:update_ref_deps")
def update_ref_deps_obligations(max_arity=3):
    """update_ref_deps(ref, resolved): the three loop bodies located in the current source, each executed for one
    arbitrary element: (1) a connected port is re-connected through replace(portname, resolved); (2) a dependent slice
    gets `resolved` as parent; (3) a dependent concatenation keeps its parts in order with every occurrence of the
    reference (and nothing else) replaced - concatenations of 1 to 3 parts (tuple arity is unrolled: bounded in the arity,
    symbolic in the parts)."""
    import ast
    from pyvc import loader
    from pyvc.engine import Frame
    key = UpdateRefDeps.key
    ext = loader.extract(key)
    info = {"sha": ext.sha, "lines": ext.lines, "path": ext.path, "paths": 0, "scenarios": 0, "unsupported": []}
    loops = [n for n in ast.walk(ext.node) if isinstance(n, ast.For)]
    obs = []

    class ReplaceCallee(Contract):
        key = "hdl21.instance:_Instance.replace"
        pure = False
        raises = (KeyError, TypeError)
        returns = "opaque"

        def scenarios(self, eng):
            return []

        def frame(self, eng, st, a):
            for f in ("conns", "_connected_ports"):
                st.heap.havoc_field(f)

    def run_body(loop, setup, judge, tag):
        eng = mk_engine(contracts=[ReplaceCallee()])
        eng.field_classes["inst"] = (Instance, InstanceArray, InstanceBundle)
        eng.field_classes["parent"] = SOURCES + (PortRef,)
        st = eng.new_state()
        ref = sym_ref(st, "ref", (PortRef,))
        resolved = sym_ref(st, "resolved", SOURCES)
        st.locals = {"ref": ref, "resolved": resolved}
        extra = setup(eng, st, ref, resolved)
        st.locals.update(extra)
        st0 = st.fork()
        eng.frames.append(Frame(ext, ext.key))
        eng.cuts = []
        try:
            outs = eng.exec_block(loop.body, st)
        except Unsupported as e:
            info["unsupported"].append(f"{tag}: {e}")
            return
        finally:
            eng.frames.pop()
        info["scenarios"] += 1
        for pi, (kind, s2, v) in enumerate(outs):
            info["paths"] += 1
            if kind == "exc":
                continue
            goal = judge(eng, st0, s2, ref, resolved, extra)
            obs.append(Obligation(f"{key}/{tag}/p{pi}/post", "post", list(s2.pc), zbool(goal) if goal not in (True, False)
                                  else z3.BoolVal(goal), key, tag, pi,
                                  {"trace": list(s2.trace), "havoc": list(s2.ghost.get("havoc", ()))}))

    for loop in loops:
        src = ast.unparse(loop.iter)
        tgt = loop.target.id if isinstance(loop.target, ast.Name) else None
        if "_connected_ports" in src and tgt:
            def setup(eng, st, ref, resolved, tgt=tgt):
                cp = sym_ref(st, "connected_port", (PortRef,))
                inst = st.heap.get("inst", cp.z)
                st.assume(z3.And(inst != NULL, st.heap.get("$alive", inst)))
                st.assume(z3.Or([st.heap.get("$cls", inst) == st.classid(k) for k in (Instance, InstanceArray, InstanceBundle)]))
                return {tgt: cp}

            def judge(eng, st0, s2, ref, resolved, extra, tgt=tgt):
                calls = [c for c in s2.calls if c[0] == "hdl21.instance:_Instance.replace"]
                if len(calls) != 1 or calls[0][1].conn is not resolved or not isinstance(calls[0][1].self, SRef):
                    return False
                cp = extra[tgt]
                return z3.And(calls[0][1].self.z == st0.heap.get("inst", cp.z),
                              zstr(calls[0][1].portname) == st0.heap.get("portname", cp.z))
            run_body(loop, setup, judge, "connected-port")
        elif "_slices" in src and tgt:
            def setup(eng, st, ref, resolved, tgt=tgt):
                sl = sym_ref(st, "slice_", (Slice,))
                st.assume(st.heap.get("parent", sl.z) == ref.z)
                return {tgt: sl}

            def judge(eng, st0, s2, ref, resolved, extra, tgt=tgt):
                return s2.heap.get("parent", extra[tgt].z) == resolved.z
            run_body(loop, setup, judge, "dependent-slice")
        elif "_concats" in src and tgt:
            for arity in range(1, max_arity + 1):
                for pos in range(arity):
                    def setup(eng, st, ref, resolved, tgt=tgt, arity=arity, pos=pos):
                        cc = sym_ref(st, "concat", (Concat,))
                        parts = []
                        for k in range(arity):
                            if k == pos:
                                parts.append(ref)
                            else:
                                p = sym_ref(st, f"part{k}", (Signal, Slice))
                                st.assume(p.z != ref.z)
                                parts.append(p)
                        eng.write_field(st, cc, "parts", tuple(parts))
                        return {tgt: cc, "$parts": tuple(parts), "$pos": pos}

                    def judge(eng, st0, s2, ref, resolved, extra, tgt=tgt):
                        got = eng.read_field(s2, extra[tgt], "parts")[0][1]
                        want = extra["$parts"]
                        if not isinstance(got, tuple) or len(got) != len(want):
                            return False
                        cs = []
                        for k, (g, w_) in enumerate(zip(got, want)):
                            if not isinstance(g, SRef):
                                return False
                            cs.append(g.z == (resolved.z if k == extra["$pos"] else w_.z))
                        return z3.And(cs)
                    run_body(loop, setup, judge, f"dependent-concat/arity{arity}/pos{pos}")
    if len(loops) < 3:
        info["unsupported"].append(f"expected three loops in update_ref_deps, found {len(loops)}")
    return key, obs, info
