import argparse
import importlib
import json
import os
import sys
import traceback

ROOT = os.path.dirname(os.path.dirname(os.path.abspath(__file__)))
sys.path.insert(0, ROOT)
from vcheck.core import Ctx, finish  # noqa: E402


def main():
    ap = argparse.ArgumentParser()
    ap.add_argument("prop")
    ap.add_argument("--tier", default=os.environ.get("VERIF_TIER", "quick"), choices=["quick", "thorough"])
    ap.add_argument("--replay", default=None)
    args = ap.parse_args()
    seed = int(os.environ.get("VERIF_SEED", "0") or 0)
    pid = args.prop.upper()
    mod = importlib.import_module(f"props.{pid.lower()}")
    if args.replay:
        payload = json.load(open(args.replay))
        rc = mod.replay(payload)
        sys.exit(rc)
    ctx = Ctx(pid, args.tier, seed)
    try:
        info = mod.run(ctx)
    except Exception as e:
        print(f"CHECKER-ERROR property={pid}: {type(e).__name__}: {e}", file=sys.stderr)
        traceback.print_exc()
        ctx.checker_errors.append(f"{type(e).__name__}: {e}")
        info = getattr(mod, "INFO", {"level": "other", "explanation": "checker crashed", "trusted_base": []})
    rc = finish(ctx, info["level"], info["explanation"], f"./check {pid} --tier {args.tier}", info["trusted_base"],
                info.get("exhaustive", False))
    sys.exit(rc)


main()
