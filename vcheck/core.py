"""Check driver core: collects deductive obligations and bounded evaluations for one property, decides verdicts,
matches known findings, writes replay files and the evidence file."""
import fnmatch
import hashlib
import json
import os
import sys
import time
import traceback

ROOT = os.path.dirname(os.path.dirname(os.path.abspath(__file__)))
sys.path.insert(0, ROOT)

from pyvc import loader  # noqa: E402
loader.ensure_paths()

GLOBAL_ASSUMPTIONS = [
    "pyvc encodes CPython 3.12 semantics for the subset it accepts (ints are mathematical = exact for Python ints; "
    "floor div/mod; evaluation order; slice.indices/range/len as in pyvc/pysem.py) - validated by a concrete "
    "cross-check against the real functions on every run, not proved",
    "z3 5.1 / cvc5 1.0.3 are sound",
    "pydantic dataclass construction is the identity on well-typed field values",
    "each dict/set-valued field holds its own container object (no two objects share one dict/set)",
    "no monkey-patching of the contracted classes; single thread",
    "exception message text is not modelled (dropped by extraction)",
]


class Violation:
    def __init__(self, key, what, payload, has_input):
        self.key = key              # stable identifier: function/clause/witness-class
        self.what = what
        self.payload = payload      # dict written to the replay file
        self.has_input = has_input


class Ctx:
    def __init__(self, prop_id, tier, seed):
        self.prop = prop_id
        self.tier = tier
        self.seed = seed
        self.t0 = time.time()
        self.functions = []          # per-function report dicts
        self.obligations = 0
        self.discharged = 0
        self.by_backend = {}
        self.solver_s = 0.0
        self.undecided = []
        self.violations = []
        self.notes = []
        self.assumptions = list(GLOBAL_ASSUMPTIONS)
        self.bounded = []            # dicts: name, evaluations, distinct, rule, samples, bound
        self.samples = []
        self.checker_errors = []
        self.unsupported = []
        self.lemmas = []

    # ------------------------------------------------------------------ deductive part
    def verify(self, eng, contracts, replay=None, timeout_ms=None, min_obligations=None):
        """Verify each contract's function; replay(contract, obligation) -> (reproduced, detail, input) or None."""
        from pyvc import verify_function, solve
        timeout_ms = timeout_ms or (10000 if self.tier == "quick" else 60000)
        for con in contracts:
            try:
                rep = verify_function(eng, con)
            except Exception as e:   # the checker itself broke
                self.checker_errors.append(f"{con.key}: {type(e).__name__}: {e}\n{traceback.format_exc()[-4000:]}")
                continue
            fr = {"function": con.key, "sha": rep.sha, "lines": rep.lines, "file": rep.path,
                  "scenarios": rep.scenarios, "paths": rep.paths, "obligations": len(rep.obligations),
                  "discharged": 0, "inlined": sorted(rep.inlined), "havoc_calls": sorted(rep.havocs),
                  "time_s": round(rep.time_s, 3), "status": "proved"}
            if rep.unsupported:
                fr["status"] = "unsupported"
                fr["unsupported"] = rep.unsupported
                self.unsupported.append((con.key, rep.unsupported))
            fr["unreachable_paths"] = rep.unreachable
            if rep.vacuous:
                self.notes.append(f"{con.key}: scenarios without a reachable normal path (raise-only): {rep.vacuous}")
                fr["raise_only_scenarios"] = rep.vacuous
            if rep.cover_failed:
                self.checker_errors.append(f"{con.key}: precondition not satisfiable in {rep.cover_failed}")
            want = (min_obligations or {}).get(con.key, 1)
            if not rep.unsupported and len(rep.obligations) < want:
                self.checker_errors.append(f"{con.key}: only {len(rep.obligations)} obligations generated (< {want})")
            for ob in rep.obligations:
                solve.solve_one(ob, timeout_ms)
                self.obligations += 1
                self.solver_s += ob.time_s
                if ob.status == "proved":
                    self.discharged += 1
                    fr["discharged"] += 1
                    self.by_backend[ob.solver] = self.by_backend.get(ob.solver, 0) + 1
                elif ob.status in ("failed", "candidate"):
                    fr["status"] = "failed"
                    self._failed(con, ob, replay)
                else:
                    fr["status"] = "undecided" if fr["status"] == "proved" else fr["status"]
                    self.undecided.append({"obligation": ob.name, "reason": getattr(ob, "reason", "unknown")})
            if len(self.samples) < 6 and rep.obligations:
                ob = rep.obligations[len(rep.obligations) // 2]
                self.samples.append({"obligation": ob.name, "kind": ob.kind, "status": ob.status,
                                     "solver": ob.solver, "path": ob.meta.get("trace")})
            self.functions.append(fr)

    def _failed(self, con, ob, replay):
        clause = ob.name.split("/", 3)[-1] if ob.name.count("/") >= 3 else ob.name
        clause = clause.split("/", 1)[-1] if clause.startswith("p") and "/" in clause else clause
        model_txt = None
        if ob.model is not None:
            try:
                model_txt = {str(d): str(ob.model[d]) for d in ob.model.decls()
                             if not str(d).startswith(("h.", "hv.", "k!"))}
            except Exception:
                model_txt = str(ob.model)[:2000]
        payload = {"property": self.prop, "obligation": ob.name, "function": con.key, "clause": clause,
                   "scenario": ob.scenario, "path_trace": ob.meta.get("trace"), "solver": ob.solver,
                   "solver_answer": "sat (negated goal satisfiable)" if ob.status == "failed" else
                   "full query unknown; negated goal satisfiable with the quantified assumptions instantiated over "
                   "the ground terms of the query (finite scope)", "model": model_txt}
        try:
            payload["smt2"] = ob.smt2()[:20000]
        except Exception:
            pass
        rep = None
        if replay is not None and (ob.model is not None or getattr(replay, "finds_own_model", False)):
            try:
                rep = replay(con, ob)
            except Exception as e:
                rep = None
                payload["replay_error"] = f"{type(e).__name__}: {e}"
        wclass = ""
        if ob.meta.get("havoc") and not (rep is not None and rep[0] is True):
            # the failing path runs through a call the engine has no contract for (its effect is unknown to the proof):
            # a tool limit, not evidence against the code - undecided unless a replayed input fails natively
            self.undecided.append({"obligation": ob.name, "reason": "path passes through uncontracted call(s) "
                                   + "; ".join(map(str, ob.meta["havoc"]))[:200]})
            return
        if rep is not None and rep[0] == "undecided":
            # the solver's model depends on an abstraction (uninterpreted function, over-approximated exception) and
            # does not fail natively: neither a violation nor an engine fault - reported as undecided
            self.undecided.append({"obligation": ob.name, "reason": "model through an abstraction does not reproduce: "
                                   + str(rep[1])[:200]})
            return
        if rep is not None:
            reproduced, detail, inp = rep
            payload["replay"] = {"reproduced": reproduced, "detail": detail, "input": inp}
            if isinstance(inp, dict) and "witness_class" in inp:
                wclass = "/" + inp["witness_class"]
            if not reproduced:
                # model does not reproduce on the real code: encoding mismatch or harness limit -> not a violation
                self.checker_errors.append(f"encoding-mismatch: {ob.name}: model {model_txt} does not reproduce: {detail}")
                return
        key = f"{con.key}/{ob.scenario}/{clause}{wclass}"
        self.violations.append(Violation(key, f"obligation {ob.name} fails" + (f": {rep[1]}" if rep else ""),
                                         payload, has_input=rep is not None))

    def discharge(self, obs, fkey, info, replay=None, timeout_ms=None):
        """Discharge obligations generated outside verify_function (relational / lemma-style, still from real source)."""
        from pyvc import solve
        timeout_ms = timeout_ms or (20000 if self.tier == "quick" else 60000)
        fr = {"function": fkey, "sha": info.get("sha"), "lines": info.get("lines"), "file": info.get("path"),
              "scenarios": info.get("scenarios", 0), "paths": info.get("paths", 0), "obligations": len(obs),
              "discharged": 0, "status": "proved", "kind": "relational"}

        class _Con:
            key = fkey
        for ob in obs:
            solve.solve_one(ob, timeout_ms)
            self.obligations += 1
            self.solver_s += ob.time_s
            if ob.status == "proved":
                self.discharged += 1
                fr["discharged"] += 1
                self.by_backend[ob.solver] = self.by_backend.get(ob.solver, 0) + 1
            elif ob.status in ("failed", "candidate"):
                fr["status"] = "failed"
                self._failed(_Con, ob, replay)
            else:
                fr["status"] = "undecided" if fr["status"] == "proved" else fr["status"]
                self.undecided.append({"obligation": ob.name, "reason": getattr(ob, "reason", "unknown")})
        if obs and len(self.samples) < 8:
            ob = obs[len(obs) // 2]
            self.samples.append({"obligation": ob.name, "kind": ob.kind, "status": ob.status, "solver": ob.solver})
        self.functions.append(fr)

    def lemma(self, name, assumptions, goal, timeout_ms=10000):
        """A lemma over contracts only (no bodies): assumptions => goal."""
        from pyvc import Obligation, solve
        ob = Obligation(f"lemma/{name}", "lemma", list(assumptions), goal, "lemma", "-", 0)
        solve.solve_one(ob, timeout_ms)
        self.obligations += 1
        self.solver_s += ob.time_s
        self.lemmas.append({"lemma": name, "status": ob.status, "solver": ob.solver})
        if ob.status == "proved":
            self.discharged += 1
            self.by_backend[ob.solver] = self.by_backend.get(ob.solver, 0) + 1
        elif ob.status == "failed":
            payload = {"property": self.prop, "obligation": ob.name, "solver": ob.solver,
                       "model": str(ob.model)[:4000], "smt2": ob.smt2()[:20000]}
            self.violations.append(Violation(f"lemma/{name}", f"lemma {name} fails", payload, False))
        else:
            self.undecided.append({"obligation": ob.name, "reason": getattr(ob, "reason", "unknown")})
        return ob.status

    # ------------------------------------------------------------------ syntactic frame audits
    def frame_audit(self, name, offenders, what, n=1):
        """A syntactic audit of the source backs a frame / ownership assumption of the proofs (nothing else writes X;
        every Y goes through Z).  When it finds an offender the inductive argument no longer applies - which says the PROOF
        is lost, not that the property is broken (the write may have moved into a helper): reported as UNDECIDED, and the
        bounded families, which run the real code, decide."""
        self.obligations += n
        if offenders:
            self.undecided.append({"obligation": name, "reason": f"{what}: {list(offenders)[:3]}"})
            self.functions.append({"function": name, "obligations": n, "discharged": 0, "status": "undecided",
                                   "offenders": [list(o) if isinstance(o, tuple) else o for o in list(offenders)[:5]]})
        else:
            self.discharged += n
            self.by_backend["ast-audit"] = self.by_backend.get("ast-audit", 0) + n

    # ------------------------------------------------------------------ bounded part
    def run_bounded(self, name, cases, check, rule, bound, key_of=None, nontrivial=None, max_report=5):
        """cases: iterable of case objects; check(case) -> None | (key, what, witness-dict).
        Evaluates the run-time contract on the real code; counted separately, never as proved."""
        n = 0
        distinct = set()
        samples = []
        found = {}
        for case in cases:
            n += 1
            try:
                r = check(case)
            except Exception as e:
                self.checker_errors.append(f"bounded {name}: harness error on {case!r}: {type(e).__name__}: {e}\n"
                                           + traceback.format_exc()[-1200:])
                if len(self.checker_errors) > 5:
                    break
                continue
            if nontrivial is None or nontrivial(case):
                distinct.add(key_of(case) if key_of else repr(case))
            if len(samples) < 3 or (n % 997 == 0 and len(samples) < 8):
                samples.append(_short(case))
            if r is not None:
                key, what, wit = r
                if key not in found:
                    found[key] = (what, wit, 1)
                else:
                    w0, wit0, c = found[key]
                    found[key] = (w0, wit0, c + 1)
        for key, (what, wit, count) in found.items():
            payload = {"property": self.prop, "bounded_check": name, "key": key, "what": what, "input": wit,
                       "occurrences": count}
            self.violations.append(Violation(key, what, payload, has_input=True))
        self.bounded.append({"name": name, "evaluations": n, "distinct_nontrivial": len(distinct), "rule": rule,
                             "bound": bound, "samples": samples, "violating_keys": len(found)})
        return found


def _short(x):
    s = repr(x)
    return s if len(s) < 300 else s[:300] + "..."


# ---------------------------------------------------------------------------------------------------
def load_known_findings():
    path = os.path.join(ROOT, "known_findings.jsonl")
    out = []
    if os.path.exists(path):
        for line in open(path):
            line = line.strip()
            if line and not line.startswith("#") and not line.startswith("fixed:"):
                out.append(json.loads(line))
    return out


def finish(ctx, level, explanation, checker_cmd, trusted_base, exhaustive=False):
    """Apply known findings, print verdict lines, write evidence, return exit code."""
    known = [k for k in load_known_findings() if k.get("property") == ctx.prop and k.get("status") != "fixed"]
    os.makedirs(os.path.join(ROOT, "replays"), exist_ok=True)
    new = []
    seen_known = {}
    uniq = {}
    for v in ctx.violations:
        if v.key in uniq:
            uniq[v.key].payload["occurrences"] = uniq[v.key].payload.get("occurrences", 1) + 1
        else:
            uniq[v.key] = v
    for v in uniq.values():
        hit = None
        for k in known:
            if fnmatch.fnmatchcase(v.key, k["key"]):
                hit = k
                break
        if hit is not None:
            seen_known.setdefault(hit["key"], (hit, []))[1].append(v)
        else:
            new.append(v)
    for key, (k, vs) in seen_known.items():
        print(f"KNOWN-FINDING: property={ctx.prop} {k['what']} [{len(vs)} occurrence(s), key {key}]")
    rc = 0
    for i, v in enumerate(new):
        h = hashlib.sha1(v.key.encode()).hexdigest()[:10]
        path = os.path.join("replays", f"{ctx.prop}-{h}.json")
        v.payload["violation_key"] = v.key
        with open(os.path.join(ROOT, path), "w") as f:
            json.dump(v.payload, f, indent=1, default=str)
        tail = "" if v.has_input else " no-failing-input-found"
        print(f"VIOLATION property={ctx.prop} replay={path} key={v.key} :: {v.what[:300]}{tail}")
        rc = 1
    for u in ctx.undecided[:20]:
        print(f"UNDECIDED property={ctx.prop} obligation={u['obligation']} ({u['reason']})")
    for fkey, why in ctx.unsupported:
        print(f"UNSUPPORTED property={ctx.prop} function={fkey}: {why} (function falls back to its bounded check)")
    if ctx.checker_errors:
        for e in ctx.checker_errors[:10]:
            print(f"CHECKER-ERROR property={ctx.prop}: {e}", file=sys.stderr)
        if rc == 0:
            rc = 3
    evals = sum(b["evaluations"] for b in ctx.bounded)
    distinct = sum(b["distinct_nontrivial"] for b in ctx.bounded)
    samples = list(ctx.samples)
    for b in ctx.bounded:
        samples.extend({"bounded": b["name"], "case": s} for s in b["samples"][:2])
    cov = {
        "obligations": ctx.obligations,
        "discharged": ctx.discharged,
        "discharged_by_backend": ctx.by_backend,
        "solver_time_s": round(ctx.solver_s, 3),
        "checker_cmd": checker_cmd,
        "trusted_base": trusted_base,
        "functions_under_contract": ctx.functions,
        "lemmas": ctx.lemmas,
        "undecided": ctx.undecided,
        "unsupported_functions": [{"function": k, "why": w} for k, w in ctx.unsupported],
        "bounded_checks": ctx.bounded,
        "evaluations": evals,
        "distinct_nontrivial": distinct,
        "rule": "; ".join(f"{b['name']}: {b['rule']} (bound: {b['bound']})" for b in ctx.bounded) or
                "no bounded part",
        "samples": samples or [{"note": "no samples"}],
        "explanation": explanation,
        "exhaustive": exhaustive,
        "known_findings_seen": sorted(seen_known),
        "new_violation_keys": [v.key for v in new],
        "notes": ctx.notes,
    }
    ev = {"property_id": ctx.prop, "tier": ctx.tier, "seed": ctx.seed, "level": level, "coverage": cov,
          "assumptions": ctx.assumptions, "wall_s": round(time.time() - ctx.t0, 3), "violations": len(new)}
    os.makedirs(os.path.join(ROOT, "evidence"), exist_ok=True)
    tmp = os.path.join(ROOT, "evidence", f"{ctx.prop}.json.tmp")
    with open(tmp, "w") as f:
        json.dump(ev, f, indent=1, default=str)
    os.replace(tmp, os.path.join(ROOT, "evidence", f"{ctx.prop}.json"))
    print(f"[{ctx.prop}] tier={ctx.tier} obligations={ctx.obligations} discharged={ctx.discharged} "
          f"bounded_evaluations={evals} known={len(seen_known)} new_violations={len(new)} "
          f"undecided={len(ctx.undecided)} wall={ev['wall_s']}s exit={rc}")
    return rc
