"""Call handling for the pyvc executor (mixed into Engine)."""
import ast
import builtins
import enum
import fractions
import inspect
import types
import typing
import z3

from .values import *
from .state import *
from . import loader
from .engine import SEnum, SuperProxy, SymView, PRefKey
from .expr import is_sym, MISSING

ANY_EXC = lambda: Exc(Exception, "any")


class CallMixin:
    def ex_Call(self, node, st):
        out = []
        # super() with no args
        if isinstance(node.func, ast.Name) and node.func.id == "super" and not node.args:
            fr = self.frames[-1]
            selfname = fr.ext.node.args.args[0].arg
            owner = self.owner_class(fr.ext.obj)
            return [(st, SuperProxy(owner, st.locals[selfname]))]
        if isinstance(node.func, ast.Name) and node.func.id in ("any", "all") and len(node.args) == 1 and not node.keywords \
                and isinstance(node.args[0], ast.GeneratorExp) and len(node.args[0].generators) == 1 \
                and node.func.id not in st.locals:
            r = self.quantified_over_map(node, st)
            if r is not None:
                return r
        nodes = [node.func]
        star = []
        for a in node.args:
            if isinstance(a, ast.Starred):
                star.append(len(nodes))
                nodes.append(a.value)
            else:
                nodes.append(a)
        kwnames = []
        for k in node.keywords:
            kwnames.append(k.arg)
            nodes.append(k.value)
        npos = len(node.args)
        for s, vals in self.ev_many(nodes, st):
            if isinstance(vals, Exc):
                out.append((s, vals))
                continue
            f = vals[0]
            args = []
            for i, v in enumerate(vals[1:1 + npos], start=1):
                if i in star:
                    if not isinstance(v, (list, tuple)):
                        raise Unsupported("star-args of symbolic sequence", node)
                    args.extend(v)
                else:
                    args.append(v)
            kwargs = {}
            for name, v in zip(kwnames, vals[1 + npos:]):
                if name is None:
                    if isinstance(v, SLoc):
                        kwargs["**"] = v
                    elif isinstance(v, dict):
                        kwargs.update(v)
                    else:
                        raise Unsupported("**kwargs of non-dict", node)
                else:
                    kwargs[name] = v
            out.extend(self.call_value(s, f, args, kwargs, node))
        return out

    def quantified_over_map(self, node, st):
        """any(<cond> for k, v in d.items()) / all(...) over a SYMBOLIC str->object map: an existential / universal statement
        over the map's entries.  The generator body is evaluated once for an arbitrary entry (fresh key); it must be free of
        side effects and exceptions.  Returns None when the iterable is not such a map (ordinary evaluation applies)."""
        gen = node.args[0]
        g = gen.generators[0]
        outs = self.ev(g.iter, st)
        if len(outs) != 1 or isinstance(outs[0][1], Exc):
            return None
        s0, it = outs[0]
        from .engine import SymView
        if isinstance(it, SymView):
            loc, what = it.loc, it.what
        elif isinstance(it, SLoc):
            loc, what = it, "keys"
        else:
            return None
        if loc.kind != "map[str,ref]":
            return None
        c = s0.heap.get(loc.field, loc.owner)
        kq = fresh("qkey", z3.StringSort())
        v = z3.Select(c, kq)
        elem = {"keys": SStr(kq), "values": SRef(v, self.ref_field_classes(loc.field + "[]")),
                "items": (SStr(kq), SRef(v, self.ref_field_classes(loc.field + "[]")))}[what]
        s1 = s0.fork()
        s1.assume(v != NULL)
        s1.assume(s1.heap.get("$alive", v))
        base = len(s1.pc)
        heap0 = s1.heap
        disj = []
        for kind, s2, e in self.assign(g.target, s1, elem):
            if kind != "ok":
                raise Unsupported("quantified generator: target assignment fails", node)
            paths = [(s2, True)]
            for cnode in list(g.ifs) + [gen.elt]:
                nxt = []
                for s3, ok in paths:
                    if not ok:
                        nxt.append((s3, False))
                        continue
                    for s4, val in self.ev(cnode, s3):
                        if isinstance(val, Exc):
                            raise Unsupported("quantified generator: the condition may raise", node)
                        for s5, b in self.branch(s4, self.truth(s4, val), "quantified-cond"):
                            nxt.append((s5, b))
                paths = nxt
            for s3, ok in paths:
                if s3.obligations[len(s1.obligations):] or len(s3.calls) != len(s1.calls):
                    raise Unsupported("quantified generator: the condition has effects", node)
                if ok:
                    disj.append(z3.And([z3.BoolVal(True)] + list(s3.pc[base:])))
        body = z3.Or(disj) if disj else z3.BoolVal(False)
        if node.func.id == "any":
            res = z3.Exists([kq], z3.And(v != NULL, body))
        else:
            res = z3.ForAll([kq], z3.Implies(v != NULL, body))
        return [(s0, SBool(res))]

    def owner_class(self, fn):
        mod = inspect.getmodule(fn)
        q = fn.__qualname__.split(".")
        obj = mod
        for p in q[:-1]:
            obj = getattr(obj, p)
        return obj

    # ------------------------------------------------------------------ dispatch
    def call_value(self, st, f, args, kwargs, node=None):
        if isinstance(f, Exc):
            return [(st, f)]
        if isinstance(f, BoundMethod):
            if isinstance(f.func, tuple):
                return self.call_special(st, f.func, f.self_, args, kwargs, node)
            return self.call_function(st, f.func, [f.self_] + list(args), kwargs, node)
        if isinstance(f, Opaque):
            return self.havoc_call(st, f"call of opaque {f.why}", node)
        if f is None:
            return [(st, Exc(TypeError, "NoneType not callable"))]
        if isinstance(f, SRef):
            for c in self.classes_of(st, f):
                if inspect.getattr_static(c, "__call__", MISSING) is MISSING:
                    return [(st, Exc(TypeError, f"{c.__name__} not callable"))]
            call = inspect.getattr_static(self.classes_of(st, f)[0], "__call__")
            return self.call_function(st, call, [f] + list(args), kwargs, node)
        if inspect.isclass(f):
            return self.construct(st, f, args, kwargs, node)
        if isinstance(f, types.MethodType):     # bound method of a concrete object (classmethod etc.)
            return self.call_function(st, f.__func__, [f.__self__] + list(args), kwargs, node)
        if isinstance(f, (types.BuiltinFunctionType, types.BuiltinMethodType, types.MethodWrapperType,
                          types.WrapperDescriptorType, types.MethodDescriptorType)) or \
                type(f).__name__ in ("wrapper_descriptor", "method_descriptor", "method-wrapper"):
            return self.call_builtin(st, f, args, kwargs, node)
        if isinstance(f, types.FunctionType):
            return self.call_function(st, f, args, kwargs, node)
        if callable(f) and not any(is_sym(a) for a in args) and not any(is_sym(v) for v in kwargs.values()):
            raise Unsupported(f"call of concrete callable {f!r}", node)
        raise Unsupported(f"call of {f!r}", node)

    def call_function(self, st, fn, args, kwargs, node=None):
        fn = loader.unwrap(fn)
        import copy as _copy
        if fn is _copy.copy and len(args) == 1:
            v = args[0]
            if isinstance(v, SLoc):      # shallow copy of a dict / set / list: a fresh container with the same content
                new = st.alloc_container(v.kind)
                st.heap.put(new.field, new.owner, st.heap.get(v.field, v.owner))
                return [(st, new)]
            if isinstance(v, (dict, list, set)):
                return [(st, _copy.copy(v))]
            if isinstance(v, SRef):          # copy.copy(obj) -> type(obj).__copy__(obj) when the class defines it
                hooks = {inspect.getattr_static(c, "__copy__", None) for c in self.classes_of(st, v)}
                if len(hooks) == 1 and None not in hooks:
                    return self.call_function(st, hooks.pop(), [v], {}, node)
                if hooks == {None} and len(self.classes_of(st, v)) == 1:
                    # generic shallow copy: a new object of the same class whose every modelled field holds what the
                    # original's holds (containers are shared, as in Python)
                    cls = self.classes_of(st, v)[0]
                    new = st.alloc(cls)
                    for f in list(st.heap.schema):
                        if f.startswith("$"):
                            continue
                        if st.heap.schema[f] == "py":
                            k = ("fld", f, zid(v.z))
                            if k in st.ghost:
                                st.ghost[("fld", f, zid(new.z))] = st.ghost[k]
                            continue
                        st.heap.put(f, new.z, st.heap.get(f, v.z))
                        if st.heap.schema[f] in ("optint", "optstr") or str(st.heap.schema[f]).startswith("opt"):
                            if f + "$none" in st.heap.arrays or True:
                                try:
                                    st.heap.put(f + "$none", new.z, st.heap.get(f + "$none", v.z))
                                except Exception:
                                    pass
                    return [(st, new)]
        key = loader.func_key(fn)
        con = self.contracts.get(key)
        if con is not None and not (self.frames and self.frames[0].key == key and len(self.frames) == 1
                                    and getattr(self, "_verifying_inline_self", False)):
            return con.apply(self, st, args, kwargs, node)
        if key in self.inline or getattr(fn, "__name__", "") in ("__setattr__", "__getattr__") and self.in_repo(fn):
            if len(self.frames) > self.max_inline_depth:
                raise Unsupported(f"inline depth exceeded at {key}", node)
            ext = loader.extract_func(fn)
            st.ghost["inlined"] = st.ghost.get("inlined", frozenset()) | {ext.key}
            bound = self.bind_args(ext, st, list(args), dict(kwargs))
            if isinstance(bound, Exc):
                return [(st, bound)]
            res = []
            for kind, s2, v in self.run(ext, st, bound):
                if kind == "ret":
                    res.append((s2, v))
                elif kind == "exc":
                    res.append((s2, v))
                elif kind == "cut":
                    self.cuts.append(s2)
                else:
                    raise Unsupported(kind, node)
            return res
        return self.havoc_call(st, f"uncontracted call {key}", node)

    def havoc_call(self, st, why, node=None):
        """Unknown callee: arbitrary heap effect, arbitrary result, may raise anything."""
        a = st.fork()
        a.heap.havoc_all()
        a.ghost["havoc"] = a.ghost.get("havoc", ()) + (why,)
        b = a.fork()
        return [(a, Opaque(why)), (b, ANY_EXC())]

    # ------------------------------------------------------------------ constructors
    def construct(self, st, cls, args, kwargs, node=None):
        if issubclass(cls, BaseException):
            return [(st, Exc(cls))]
        if cls is fractions.Fraction and len(args) == 1 and not kwargs:
            # Fraction(x) of an exact value is that value (finite Decimals convert exactly: assumption listed in C14)
            v = args[0]
            if isinstance(v, SReal):
                return [(st, v)]
            if isinstance(v, SInt):
                return [(st, SReal(zreal(v)))]
            if not is_sym(v):
                return [(st, fractions.Fraction(v))]
            raise Unsupported(f"Fraction({v!r})", node)
        if cls is reversed and len(args) == 1 and isinstance(args[0], RecRepeated):
            cur = self.read_field(st, args[0].owner, args[0].field)[0][1]
            if isinstance(cur, tuple):
                return [(st, list(reversed(cur)))]
        if cls is reversed and len(args) == 1 and isinstance(args[0], (list, tuple)):
            return [(st, list(reversed(args[0])))]         # a concrete sequence of (possibly symbolic) elements
        if cls is slice and not kwargs and 1 <= len(args) <= 3:
            a = list(args)
            if len(a) == 1:
                a = [None, a[0], None]
            elif len(a) == 2:
                a = [a[0], a[1], None]
            if all(x is None or isinstance(x, int) for x in a):
                return [(st, slice(*a))]
            return [(st, SSlice(*a))]
        if cls in (int, str, bool, list, tuple, dict, set, type, object, frozenset, float, range):
            return self.call_builtin(st, cls, args, kwargs, node)
        if isinstance(cls, type) and issubclass(cls, enum.Enum):
            raise Unsupported("Enum lookup by value", node)
        con = self.contracts.get(f"{cls.__module__}:{cls.__qualname__}")
        if con is not None:
            return con.apply(self, st, args, kwargs, node)
        if self.is_record_class(cls):
            ref = st.alloc(cls)
            if args:
                raise Unsupported(f"positional construction of record {cls.__name__}", node)
            # protobuf defaults for the message's other fields (as far as the schema knows them)
            for fd in getattr(getattr(cls, "DESCRIPTOR", None), "fields", []):
                if fd.name in kwargs:
                    continue
                fk = self.field_key(st, ref, fd.name)
                kind = st.heap.schema.get(fk)
                if kind in ("ref", "enum"):
                    st.heap.put(fk, ref.z, NULL)
                elif kind == "str":
                    st.heap.put(fk, ref.z, z3.StringVal(""))
                elif kind == "int":
                    st.heap.put(fk, ref.z, z3.IntVal(0))
                elif kind == "bool":
                    st.heap.put(fk, ref.z, z3.BoolVal(False))
                elif kind == "py" and fd.label == fd.LABEL_REPEATED:
                    st.ghost[("fld", fk, zid(ref.z))] = ()        # an empty repeated field (immutable: see append)
                elif kind in ("seq[ref]", "seq[str]") and fd.label == fd.LABEL_REPEATED:
                    st.heap.put(fk, ref.z, empty_container(kind))
            for k, v in kwargs.items():
                self.write_field(st, ref, k, v)
            return [(st, ref)]
        if getattr(cls, "__module__", "").split(".")[0] in ("typing",):
            raise Unsupported(f"call of typing construct {cls}", node)
        dfields = getattr(cls, "__dataclass_fields__", None)
        init = None
        for k in cls.__mro__:
            if "__init__" in k.__dict__:
                init = k.__dict__["__init__"]
                break
        user_init = init is not None and hasattr(init, "__code__") and self.in_repo(init)
        if dfields is None and not user_init and getattr(cls, "__module__", "") == "builtins":
            # an unmodelled builtin type applied to values the engine does not track: pure, result unknown
            return [(st, Opaque(f"{cls.__name__}()"))]
        if dfields is None and not user_init:
            if init is object.__init__ and self.in_repo_class(cls) and not args and not kwargs:
                return [(st, st.alloc(cls))]       # plain marker class without constructor
            raise Unsupported(f"construction of {cls.__name__}", node)
        ref = st.alloc(cls)
        if "_initialized" in self.schema:
            st.heap.put("_initialized", ref.z, z3.BoolVal(False))
        if user_init and dfields is None:
            out = []
            for s2, r in self.call_function_inline(st, init, [ref] + list(args), kwargs, node):
                out.append((s2, r if isinstance(r, Exc) else ref))
            return out
        # dataclass (std or pydantic): bind fields in order
        import dataclasses
        names = [n for n, f in dfields.items() if f.init]
        if len(args) > len(names):
            return [(st, Exc(TypeError, "too many args"))]
        given = dict(zip(names, args))
        for k, v in kwargs.items():
            if k not in names or k in given:
                return [(st, Exc(TypeError, f"bad argument {k}"))]
            given[k] = v
        for n, f in dfields.items():
            if n in given:
                val = given[n]
            elif f.default is not dataclasses.MISSING:
                val = f.default
            elif f.default_factory is not dataclasses.MISSING:
                fac = f.default_factory
                if fac in (dict, set, list):
                    val = fac()
                else:
                    val = Opaque(f"default_factory {getattr(fac, '__name__', fac)}")
            else:
                return [(st, Exc(TypeError, f"missing field {n}"))]
            if n in self.schema:
                if isinstance(val, Opaque):
                    raise Unsupported(f"opaque value for schema field {n}", node)
                self.write_field(st, ref, n, val)
        post = None
        for k in cls.__mro__:
            if "__post_init__" in k.__dict__:
                post = k.__dict__["__post_init__"]
                break
        if post is not None:
            out = []
            for s2, r in self.call_function_inline(st, post, [ref], {}, node):
                out.append((s2, r if isinstance(r, Exc) else ref))
            return out
        return [(st, ref)]

    def in_repo_class(self, cls):
        import sys as _sys
        mod = _sys.modules.get(getattr(cls, "__module__", ""), None)
        f = getattr(mod, "__file__", "") or ""
        import os as _os
        return _os.path.realpath(f).startswith(_os.path.realpath(loader.REPO) + _os.sep)

    def is_record_class(self, cls):
        """protobuf message classes: construction = allocation + keyword field initialisation"""
        try:
            from google.protobuf.message import Message
            return isinstance(cls, type) and issubclass(cls, Message)
        except Exception:
            return False

    def call_function_inline(self, st, fn, args, kwargs, node=None):
        key = loader.func_key(fn)
        added = key not in self.inline
        self.inline.add(key)
        try:
            saved = self.contracts.pop(key, None)
            try:
                return self.call_function(st, fn, args, kwargs, node)
            finally:
                if saved is not None:
                    self.contracts[key] = saved
        finally:
            if added:
                self.inline.discard(key)

    # ------------------------------------------------------------------ builtins
    def call_builtin(self, st, f, args, kwargs, node=None):
        name = getattr(f, "__name__", None)
        owner = getattr(f, "__objclass__", None) or getattr(f, "__self__", None)
        if f is isinstance:
            return self.bi_isinstance(st, args[0], args[1], node)
        if f is len:
            return self.bi_len(st, args[0], node)
        if f is abs:
            v = args[0]
            return [(st, abs(v))]
        if f is int and args and isinstance(args[0], SReal):
            return [(st, SInt(z_trunc(args[0].z)))]
        if f is float and args and isinstance(args[0], SReal):
            # the nearest double: an (uninterpreted) function of the exact value
            return [(st, SReal(z3.Function("nearest_float", z3.RealSort(), z3.RealSort())(args[0].z)))]
        if f is round and args and isinstance(args[0], SReal):
            if len(args) == 1 or args[1] is None:
                return [(st, SInt(z_round_half_even(args[0].z)))]
            n = args[1]
            if isinstance(n, int) and not isinstance(n, bool) and n >= 0:
                scale = z3.IntVal(10 ** n)
                return [(st, SReal(z3.ToReal(z_round_half_even(args[0].z * z3.ToReal(scale))) / z3.ToReal(scale)))]
            raise Unsupported("round() to a symbolic or negative number of places", node)
        if f is hash and args and isinstance(args[0], SReal):
            return [(st, SInt(z3.Function("hash_rational", z3.RealSort(), z3.IntSort())(args[0].z)))]
        if f is int:
            v = args[0] if args else 0
            if isinstance(v, (int, SInt)) and not isinstance(v, bool):
                return [(st, v)]
            if isinstance(v, (bool, SBool)):
                return [(st, SInt(zint(v)) if isinstance(v, SBool) else int(v))]
            if not is_sym(v):
                try:
                    return [(st, int(v))]
                except Exception as e:
                    return [(st, Exc(type(e)))]
            raise Unsupported(f"int({v!r})", node)
        if f is bool:
            t = self.truth(st, args[0]) if args else False
            return [(st, t if isinstance(t, bool) else SBool(t))]
        if f is str and args and isinstance(args[0], SReal):
            # str(Decimal): a function of the value here (a Decimal also carries its exponent / trailing zeros: the
            # contracts that use this say so among their assumptions)
            return [(st, SStr(z3.Function("decimal_str", z3.RealSort(), z3.StringSort())(args[0].z)))]
        if f is str:
            v = args[0] if args else ""
            if isinstance(v, (str, SStr)):
                return [(st, v)]
            if isinstance(v, int) or v is None or isinstance(v, (float, enum.Enum)):
                return [(st, str(v))]
            if isinstance(v, SInt):
                return [(st, SStr(z3.If(v.z >= 0, z3.IntToStr(v.z), z3.Concat(z3.StringVal("-"), z3.IntToStr(-v.z)))))]
            return [(st, Opaque("str()"))]
        if f is repr:
            return [(st, Opaque("repr()"))]
        if f is id:
            v = args[0]
            if isinstance(v, SRef):
                return [(st, SInt(z3.Function("id", z3.IntSort(), z3.IntSort())(v.z)))]
            raise Unsupported("id() of non-object", node)
        if f is hash:
            v = args[0]
            H = z3.Function("hash_int", z3.IntSort(), z3.IntSort())
            if isinstance(v, (SInt, int)):
                return [(st, SInt(H(zint(v))))]
            if isinstance(v, tuple):
                raise Unsupported("hash of tuple (use a contract)", node)
            raise Unsupported(f"hash({v!r})", node)
        if f is getattr:
            obj, attr = args[0], args[1]
            if not isinstance(attr, str):
                raise Unsupported("getattr with symbolic name", node)
            if len(args) > 2:
                return self.getattr_(st, obj, attr, node, default=args[2])
            return self.getattr_(st, obj, attr, node)
        if f is setattr:
            obj, attr, val = args
            if isinstance(attr, SStr) and isinstance(obj, SRef):
                # a symbolic name: only through a repo class's own __setattr__ hook (which then decides what the name means)
                hooks = set()
                for c in self.classes_of(st, obj):
                    hooks.add(next((k.__dict__["__setattr__"] for k in c.__mro__
                                    if "__setattr__" in k.__dict__ and k is not object), None))
                if len(hooks) == 1 and None not in hooks and self.in_repo(next(iter(hooks))):
                    return [(s2, r if isinstance(r, Exc) else None)
                            for s2, r in self.call_function(st, next(iter(hooks)), [obj, attr, val], {}, node)]
            if not isinstance(attr, str):
                raise Unsupported("setattr with symbolic name", node)
            return [(s, r) for s, r in self.setattr_(st, obj, attr, val, node)]
        if f is hasattr:
            out = []
            for s, r in self.getattr_(st, args[0], args[1], node):
                out.append((s, not (isinstance(r, Exc) and r.cls is AttributeError)))
            return out
        if f in (list, tuple):
            if not args:
                return [(st, f())]
            v = args[0]
            if isinstance(v, (list, tuple, range, dict)):
                return [(st, f(v))]
            if isinstance(v, (SLoc, SymView)):
                return [(st, v)]    # a snapshot list of a symbolic container: only iteration is supported
            raise Unsupported(f"{f.__name__}({v!r})", node)
        if f is dict and not args and kwargs and "**" not in kwargs:
            return [(st, dict(kwargs))]        # dict(k=v, ...): a fresh dict with those string keys, in order
        if f in (dict, set):
            if not args and not kwargs:
                return [(st, f())]
            raise Unsupported(f"{f.__name__}() with arguments", node)
        if f is range:
            if all(isinstance(a, int) for a in args):
                return [(st, range(*args))]
            from .pysem import SRange
            if len(args) == 3 and isinstance(args[2], SInt):
                # a symbolic step that the path condition pins to one value (e.g. through a callee's postcondition)
                c = self.try_concrete_int(st, args[2])
                if c is not None:
                    args = [args[0], args[1], c]
            if len(args) == 3 and isinstance(args[2], int) and args[2] != 0 and \
                    all(isinstance(a, (int, SInt)) for a in args[:2]):
                return [(st, SRange(*args))]
            if len(args) == 2 and all(isinstance(a, (int, SInt)) for a in args):
                return [(st, SRange(args[0], args[1], 1))]
            raise Unsupported("range with symbolic step", node)
        if f is sum:
            v = args[0]
            if isinstance(v, (list, tuple)):
                acc = args[1] if len(args) > 1 else 0
                for x in v:
                    acc = acc + x
                return [(st, acc)]
            raise Unsupported("sum of symbolic sequence", node)
        if f in (min, max) and len(args) >= 2 and all(isinstance(a, (int, SInt)) for a in args):
            acc = args[0]
            for x in args[1:]:
                c = (x < acc) if f is min else (x > acc)
                if isinstance(c, bool):
                    acc = x if c else acc
                else:
                    acc = SInt(z3.If(c.z, zint(x), zint(acc)))
            return [(st, acc)]
        if f is type:
            v = args[0]
            if isinstance(v, SRef) and len(self.classes_of(st, v)) == 1:
                return [(st, self.classes_of(st, v)[0])]
            if not is_sym(v):
                return [(st, type(v))]
            for wrapper, pytype in ((SBool, bool), (SInt, int), (SStr, str), (SSlice, slice)):
                if isinstance(v, wrapper):
                    return [(st, pytype)]
            if isinstance(v, SEnum):
                return [(st, v.cls)]
            raise Unsupported("type() of symbolic value", node)
        if f is callable:
            return [(st, callable(args[0]))] if not is_sym(args[0]) else self._unsup("callable", node)
        if f is print:
            return [(st, None)]
        if f is any or f is all:
            v = args[0]
            if isinstance(v, (list, tuple)):
                ts = [self.truth(st, x) for x in v]
                if all(isinstance(t, bool) for t in ts):
                    return [(st, f(ts))]
                zs = [zbool(t) for t in ts]
                return [(st, SBool(z3.Or(zs) if f is any else z3.And(zs)))]
            raise Unsupported("any/all over symbolic sequence", node)
        if f is sorted:
            raise Unsupported("sorted", node)
        # slice.__getattribute__(index, "start") / object.__getattribute__ / object.__setattr__
        if name == "__getattribute__":
            obj, attr = args[0], args[1]
            if isinstance(obj, (SSlice, slice)):
                return [(st, getattr(obj, attr))]
            return self.getattr_(st, obj, attr, node, raw=True)
        if name == "__setattr__":
            obj, attr, val = args
            return self.setattr_(st, obj, attr, val, node, raw=True)
        if name == "__new__" and args and inspect.isclass(args[0]):
            ref = st.alloc(args[0])
            return [(st, ref)]
        if not any(is_sym(a) for a in args) and not any(is_sym(v) for v in kwargs.values()):
            try:
                return [(st, f(*args, **kwargs))]
            except Exception as e:
                return [(st, Exc(type(e), str(e)))]
        if all(isinstance(a, Opaque) or not is_sym(a) for a in list(args) + list(kwargs.values())):
            # a builtin applied to opaque values cannot touch the modelled heap; its result is unknown.
            # (assumed not to raise: listed among the engine's assumptions)
            return [(st, Opaque(f"builtin {name}"))]
        raise Unsupported(f"builtin {name} on symbolic values", node)

    def _unsup(self, what, node):
        raise Unsupported(what, node)

    def bi_len(self, st, v, node):
        from .pysem import SRange
        if isinstance(v, SRange):
            return [(st, v.length())]
        if isinstance(v, (list, tuple, dict, str, set, range)):
            return [(st, len(v))]
        if isinstance(v, SStr):
            return [(st, SInt(z3.Length(v.z)))]
        if isinstance(v, SLoc) and v.kind.startswith("seq"):
            return [(st, SInt(z3.Length(st.heap.get(v.field, v.owner))))]
        if isinstance(v, SLoc):
            # cardinality of a map/set: uninterpreted, non-negative
            card = z3.Function("card_" + v.kind.replace("[", "_").replace("]", "").replace(",", "_"),
                               kind_sort(v.kind), z3.IntSort())
            c = card(st.heap.get(v.field, v.owner))
            st.assume(c >= 0)
            return [(st, SInt(c))]
        raise Unsupported(f"len({v!r})", node)

    def bi_isinstance(self, st, v, t, node):
        # subscripted generics (List[Signal]) raise TypeError in CPython
        ts = t if isinstance(t, tuple) else (t,)
        for x in ts:
            if isinstance(x, (typing._GenericAlias, types.GenericAlias)) and getattr(x, "__args__", ()):
                if not (len(x.__args__) and all(isinstance(a, typing.TypeVar) for a in x.__args__)):
                    return [(st, Exc(TypeError, "isinstance() with subscripted generic"))]
            if isinstance(x, typing._SpecialForm) or (not inspect.isclass(x) and
                                                      not isinstance(x, (typing._GenericAlias, types.UnionType))
                                                      and typing.get_origin(x) is None):
                return [(st, Exc(TypeError, "isinstance() arg 2 must be a type"))]
        real = []
        for x in ts:
            if isinstance(x, types.UnionType):
                real.extend(x.__args__)
            else:
                org = typing.get_origin(x)
                real.append(org if org is not None else x)
        real = tuple(real)
        if isinstance(v, SRef):
            classes = self.classes_of(st, v)
            yes = [c for c in classes if issubclass(c, real)]
            no = [c for c in classes if not issubclass(c, real)]
            if not no:
                return [(st, True)]
            if not yes:
                return [(st, False)]
            out = []
            ids = [st.classid(c) for c in yes]
            cond = z3.Or([st.heap.get("$cls", v.z) == i for i in ids])
            for s2, b in self.branch(st, cond, f"isinstance@{getattr(node, 'lineno', 0)}"):
                s2.ghost[("cls", zid(v.z))] = tuple(yes if b else no)
                out.append((s2, b))
            return out
        if isinstance(v, SInt):
            return [(st, issubclass(int, real))]
        if isinstance(v, SBool):
            return [(st, issubclass(bool, real))]
        if isinstance(v, SStr):
            return [(st, issubclass(str, real))]
        if isinstance(v, SSlice):
            return [(st, issubclass(slice, real))]
        if isinstance(v, SEnum):
            return [(st, issubclass(v.cls, real))]
        if isinstance(v, SLoc):
            py = {"map": dict, "set": set, "seq": list}[v.kind[:3]]
            return [(st, issubclass(py, real))]
        if isinstance(v, PRefKey):
            from hdl21.portref import PortRef
            return [(st, issubclass(PortRef, real))]
        if isinstance(v, Opaque):
            raise Unsupported("isinstance of opaque value", node)
        return [(st, isinstance(v, real))]

    # ------------------------------------------------------------------ methods of containers / strings / object
    def call_special(self, st, tag, self_, args, kwargs, node=None):
        kind, name = tag
        if kind == "object":
            if name == "__getattribute__":
                return self.getattr_(st, self_, args[0], node, raw=True)
            if name == "__setattr__":
                return self.setattr_(st, self_, args[0], args[1], node, raw=True)
            if name == "__init__":
                return [(st, None)]
            if name in ("__eq__",):
                return self.equal(st, self_, args[0], node)
            if name == "__hash__":
                return [(st, SInt(z3.Function("id", z3.IntSort(), z3.IntSort())(self_.z)))]
            if name == "WhichOneof" and isinstance(self_, SRef) and args and isinstance(args[0], str):
                # protobuf oneof: which member is set is ghost state of the record (set by the scenario / by construction)
                k = ("oneof", zid(self_.z), args[0])
                if k in st.ghost:
                    return [(st, st.ghost[k])]
                raise Unsupported(f"WhichOneof({args[0]!r}) of a record whose variant is not known", node)
            raise Unsupported(f"object.{name}", node)
        if kind == "objdict" and name == "get":
            # instance-dictionary look-up by a constant name: the instance field of that name.  Objects met by the
            # executor are fully constructed (every field of their class is set), so the default is never taken for a
            # field of the class; any other name is not an instance attribute.
            if not args or not isinstance(args[0], str):
                raise Unsupported("__dict__.get with a non-constant name", node)
            ref = self_.ref
            default = args[1] if len(args) > 1 else None
            out = []
            for s2, classes, _ in self.split_classes(st, ref, lambda c: args[0] in self.instance_fields(c), f".__dict__[{args[0]}]"):
                if args[0] in self.instance_fields(classes[0]):
                    out.extend(self.read_field(s2, ref, args[0]))
                else:
                    out.append((s2, default))
            return out
        if kind == "slice" and name == "indices":
            from .pysem import slice_indices
            if not isinstance(args[0], (int, SInt)):
                return [(st, Exc(TypeError, "slice.indices of non-int"))]
            for part in (self_.start, self_.stop, self_.step):
                if part is not None and not isinstance(part, (int, SInt)):
                    return [(st, Exc(TypeError, "slice indices must be integers or None"))]
            if self_.step == 0 and isinstance(self_.step, int):
                return [(st, Exc(ValueError, "slice step cannot be zero"))]
            out = []
            for s2, neg in self.branch(st, zint(args[0]) < 0, "indices(len<0)"):
                out.append((s2, Exc(ValueError, "length should not be negative")) if neg
                           else (s2, slice_indices(self_, args[0])))
            return out
        if kind == "recrep":
            cur = self.read_field(st, self_.owner, self_.field)[0][1]
            if not isinstance(cur, tuple):
                raise Unsupported("append to a repeated field of unknown content", node)
            add = (args[0],) if name == "append" else tuple(args[0]) if isinstance(args[0], (list, tuple)) else None
            if add is None:
                raise Unsupported("extend of a repeated field by a symbolic sequence", node)
            self.write_field(st, self_.owner, self_.field, cur + add)
            return [(st, None)]
        if kind == "recslot" and name == "CopyFrom":
            if not isinstance(args[0], SRef):
                raise Unsupported("CopyFrom of a non-record", node)
            self.write_field(st, self_.owner, self_.field, args[0])    # (value semantics: the copy is never aliased)
            return [(st, None)]
        if kind == "str":
            return self.str_method(st, self_, name, args, node)
        if kind == "py":
            return self.py_method(st, self_, name, args, kwargs, node)
        if kind == "container":
            return self.container_method(st, self_, name, args, kwargs, node)
        raise Unsupported(f"special call {tag}", node)

    def str_method(self, st, s, name, args, node):
        if name == "startswith":
            p = args[0]
            if isinstance(s, str) and isinstance(p, str):
                return [(st, s.startswith(p))]
            return [(st, SBool(z3.PrefixOf(zstr(p), zstr(s))))]
        if name == "endswith":
            return [(st, SBool(z3.SuffixOf(zstr(args[0]), zstr(s))))]
        if name == "join":
            parts = args[0]
            if not isinstance(parts, (list, tuple)):
                raise Unsupported("join of symbolic-length sequence", node)
            if any(not isinstance(p, (str, SStr)) for p in parts):
                return [(st, Exc(TypeError, "join of non-str"))]
            if not parts:
                return [(st, "")]
            acc = parts[0]
            for p in parts[1:]:
                acc = acc + s + p if isinstance(acc, SStr) or isinstance(s, SStr) or isinstance(p, SStr) \
                    else acc + s + p
            return [(st, acc)]
        if name in ("ljust", "format", "upper", "lower", "strip", "split", "replace"):
            return [(st, Opaque(f"str.{name}"))]
        raise Unsupported(f"str.{name}", node)

    def py_method(self, st, obj, name, args, kwargs, node):
        if isinstance(obj, str):
            if any(is_sym(a) for a in args) or (args and isinstance(args[0], (list, tuple)) and
                                               any(is_sym(x) for x in args[0])):
                return self.str_method(st, obj, name, args, node)
            try:
                return [(st, getattr(obj, name)(*args, **kwargs))]
            except Exception as e:
                return [(st, Exc(type(e)))]
        if isinstance(obj, list):
            if name == "append":
                obj.append(args[0])
                return [(st, None)]
            if name == "extend" and isinstance(args[0], (list, tuple)):
                obj.extend(args[0])
                return [(st, None)]
            if name == "pop" and not args:
                if not obj:
                    return [(st, Exc(IndexError))]
                return [(st, obj.pop())]
        if isinstance(obj, dict):
            if name in ("items", "keys", "values"):
                return [(st, list(getattr(obj, name)()))]
            if name == "get" and not is_sym(args[0]):
                return [(st, obj.get(*args))]
            if name == "pop" and not is_sym(args[0]):
                try:
                    return [(st, obj.pop(*args))]
                except KeyError:
                    return [(st, Exc(KeyError))]
        if isinstance(obj, tuple) and name in ("index", "count") and not any(is_sym(a) for a in args) \
                and not any(is_sym(x) for x in obj):
            try:
                return [(st, getattr(obj, name)(*args))]
            except ValueError:
                return [(st, Exc(ValueError))]
        raise Unsupported(f"method {name} on local {type(obj).__name__} with symbolic content", node)

    def container_method(self, st, loc, name, args, kwargs, node):
        c = st.heap.get(loc.field, loc.owner)
        k = loc.kind

        def put(v):
            st.heap.put(loc.field, loc.owner, v)
        elemcls = self.ref_field_classes(loc.field + "[]")
        if k == "map[str,ref]":
            if name in ("keys", "values", "items"):
                return [(st, SymView(loc, name))]
            if name in ("get", "pop") and not isinstance(args[0], (str, SStr)):
                if len(args) > 1 or name == "get":
                    return [(st, args[1] if len(args) > 1 else None)]
                return [(st, Exc(KeyError))]
            if name == "get":
                key = args[0]
                default = args[1] if len(args) > 1 else None
                v = z3.Select(c, zstr(key))
                out = []
                for s2, b in self.branch(st, v == NULL, "dict.get miss"):
                    out.append((s2, default if b else SRef(v, elemcls)))
                return out
            if name == "pop" and len(args) > 1 and getattr(self, "_discard", None) is node:
                # `d.pop(k, default)` as a statement: the result is discarded, no need to fork on presence
                put(z3.Store(c, zstr(args[0]), NULL))
                return [(st, Opaque("discarded pop result"))]
            if name == "pop":
                key = args[0]
                v = z3.Select(c, zstr(key))
                out = []
                for s2, b in self.branch(st, v == NULL, "dict.pop miss"):
                    if b:
                        out.append((s2, args[1]) if len(args) > 1 else (s2, Exc(KeyError)))
                    else:
                        s2.heap.put(loc.field, loc.owner, z3.Store(c, zstr(key), NULL))
                        out.append((s2, SRef(v, elemcls)))
                return out
            if name == "popitem":
                raise Unsupported("dict.popitem", node)
            raise Unsupported(f"dict.{name}", node)
        if k == "map[key,ref]":
            if name == "get":
                v = z3.Select(c, self.elem_key(st, args[0]))
                default = args[1] if len(args) > 1 else None
                out = []
                for s2, b in self.branch(st, v == NULL, "dict.get miss"):
                    out.append((s2, default if b else SRef(v, elemcls)))
                return out
            raise Unsupported(f"dict.{name}", node)
        if k in ("set[ref]", "set[key]"):
            ek = (lambda x: x.z) if k == "set[ref]" else (lambda x: self.elem_key(st, x))
            if name == "add":
                if not isinstance(args[0], SRef):
                    raise Unsupported(f"set.add({args[0]!r})", node)
                put(z3.Store(c, ek(args[0]), z3.BoolVal(True)))
                return [(st, None)]
            if name == "discard" and getattr(self, "_discard", None) is node:
                put(z3.Store(c, ek(args[0]), z3.BoolVal(False)))
                return [(st, None)]
            if name in ("remove", "discard"):
                e = args[0]
                ekz = ek(e)
                out = []
                for s2, b in self.branch(st, z3.Select(c, ekz), "set.remove hit"):
                    if b:
                        s2.heap.put(loc.field, loc.owner, z3.Store(c, ekz, z3.BoolVal(False)))
                        out.append((s2, None))
                    else:
                        out.append((s2, Exc(KeyError)) if name == "remove" else (s2, None))
                return out
            raise Unsupported(f"set.{name}", node)
        if k == "set[pref]":
            if name == "add":
                i, p = self.pref_key(st, args[0])
                put(z3.Store(c, i, p, z3.BoolVal(True)))
                return [(st, None)]
            if name in ("remove", "discard"):
                i, p = self.pref_key(st, args[0])
                out = []
                for s2, b in self.branch(st, z3.Select(c, i, p), "set.remove hit"):
                    if b:
                        s2.heap.put(loc.field, loc.owner, z3.Store(c, i, p, z3.BoolVal(False)))
                        out.append((s2, None))
                    else:
                        out.append((s2, Exc(KeyError)) if name == "remove" else (s2, None))
                return out
            raise Unsupported(f"set.{name}", node)
        if k in ("seq[ref]", "seq[str]"):
            if name == "append":
                e = args[0]
                unit = z3.Unit(e.z if k == "seq[ref]" else zstr(e))
                put(z3.Concat(c, unit))
                return [(st, None)]
            if name == "pop" and not args:
                n = z3.Length(c)
                out = []
                for s2, b in self.branch(st, n > 0, "list.pop nonempty"):
                    if b:
                        last = c[n - 1]
                        s2.heap.put(loc.field, loc.owner, z3.SubSeq(c, 0, n - 1))
                        out.append((s2, SRef(last, elemcls) if k == "seq[ref]" else SStr(last)))
                    else:
                        out.append((s2, Exc(IndexError)))
                return out
            raise Unsupported(f"list.{name}", node)
        raise Unsupported(f"{k}.{name}", node)
