"""Symbolic value wrappers used by the pyvc executor and by contracts.

Concrete Python values (int, bool, str, None, tuples, enum members, classes, functions) are kept as they are;
only what is not known is wrapped.  Wrappers overload the arithmetic / comparison operators so that contract
clauses can be written as ordinary Python expressions that work on concrete values (run-time use) and on
symbolic ones (deductive use) alike.
"""
import z3

NULL = z3.IntVal(0)

_KEEP = {}


def zid(z):
    """z3's id of a term, for use as a dictionary key.  z3 recycles the ids of terms that have been freed, so a term
    whose id is used as a key is kept alive for the rest of the process (else a later, unrelated term could take the id
    and read the entry)."""
    k = z.get_id()
    _KEEP[k] = z
    return k


class Sym:
    __slots__ = ("z",)

    def __init__(self, z):
        self.z = z

    def __repr__(self):
        return f"{type(self).__name__}({self.z})"

    def __hash__(self):
        return hash(("sym", self.z.get_id()))


def zint(v):
    if isinstance(v, SInt):
        return v.z
    if isinstance(v, bool):
        return z3.IntVal(1 if v else 0)
    if isinstance(v, int):
        return z3.IntVal(v)
    if isinstance(v, SBool):
        return z3.If(v.z, z3.IntVal(1), z3.IntVal(0))
    if z3.is_expr(v):
        return v
    raise TypeError(f"not an int value: {v!r}")


def zbool(v):
    if isinstance(v, SBool):
        return v.z
    if isinstance(v, bool):
        return z3.BoolVal(v)
    if z3.is_expr(v):
        return v
    raise TypeError(f"not a bool value: {v!r}")


def zstr(v):
    if isinstance(v, SStr):
        return v.z
    if isinstance(v, str):
        return z3.StringVal(v)
    if z3.is_expr(v):
        return v
    raise TypeError(f"not a str value: {v!r}")


def py_floordiv(a, b):
    """Python floor division on z3 ints (b != 0 assumed by the caller)."""
    # z3 `/` on ints is Euclidean-ish div: a == b*div + mod with 0 <= mod < |b|.
    # Python: q = floor(a/b).   For b > 0: floor == z3 div.   For b < 0: floor(a/b) = floor((-a)/(-b)) = (-a) div (-b)
    return z3.If(b > 0, a / b, (-a) / (-b))


def py_mod(a, b):
    return a - b * py_floordiv(a, b)


class SInt(Sym):
    def _bin(self, o, f):
        if isinstance(o, (int, SInt, SBool)) and not isinstance(o, SStr):
            return SInt(z3.simplify(f(self.z, zint(o))))
        return NotImplemented

    def __add__(self, o): return self._bin(o, lambda a, b: a + b)
    def __radd__(self, o): return self._bin(o, lambda a, b: b + a)
    def __sub__(self, o): return self._bin(o, lambda a, b: a - b)
    def __rsub__(self, o): return self._bin(o, lambda a, b: b - a)
    def __mul__(self, o): return self._bin(o, lambda a, b: a * b)
    def __rmul__(self, o): return self._bin(o, lambda a, b: b * a)
    def __neg__(self): return SInt(z3.simplify(-self.z))
    def __pos__(self): return self
    def __floordiv__(self, o): return self._bin(o, py_floordiv)
    def __rfloordiv__(self, o): return self._bin(o, lambda a, b: py_floordiv(b, a))
    def __mod__(self, o): return self._bin(o, py_mod)
    def __rmod__(self, o): return self._bin(o, lambda a, b: py_mod(b, a))
    def __abs__(self): return SInt(z3.If(self.z >= 0, self.z, -self.z))

    def _cmp(self, o, f):
        if isinstance(o, (int, SInt, SBool)):
            return SBool(z3.simplify(f(self.z, zint(o))))
        return NotImplemented

    def __lt__(self, o): return self._cmp(o, lambda a, b: a < b)
    def __le__(self, o): return self._cmp(o, lambda a, b: a <= b)
    def __gt__(self, o): return self._cmp(o, lambda a, b: a > b)
    def __ge__(self, o): return self._cmp(o, lambda a, b: a >= b)

    def __eq__(self, o):
        if isinstance(o, (int, SInt, SBool)):
            return SBool(z3.simplify(self.z == zint(o)))
        return False

    def __ne__(self, o):
        if isinstance(o, (int, SInt, SBool)):
            return SBool(z3.simplify(self.z != zint(o)))
        return True

    __hash__ = Sym.__hash__


def zreal(v):
    """exact rational -> z3 Real (ints, Fractions and finite Decimals are exact; floats are refused)"""
    from fractions import Fraction
    from decimal import Decimal
    if isinstance(v, SReal):
        return v.z
    if isinstance(v, SInt):
        return z3.ToReal(v.z)
    if isinstance(v, bool):
        raise TypeError("bool as real")
    if isinstance(v, (int, Fraction, Decimal)):
        q = Fraction(v)
        return z3.Q(q.numerator, q.denominator)
    raise TypeError(f"not an exact real value: {v!r}")


def z_round_half_even(x):
    """Python's round(Fraction) (ties to even) on a z3 Real -> z3 Int"""
    f = z3.ToInt(x)                     # floor
    d = x - z3.ToReal(f)
    half = z3.Q(1, 2)
    return z3.If(d < half, f, z3.If(d > half, f + 1, z3.If(f % 2 == 0, f, f + 1)))


def z_trunc(x):
    """int(Fraction): truncation toward zero"""
    f = z3.ToInt(x)
    return z3.If(z3.Or(x >= 0, z3.ToReal(f) == x), f, f + 1)


class SReal(Sym):
    """An exact rational (fractions.Fraction, or a finite decimal.Decimal converted to one)."""
    def _bin(self, o, f):
        try:
            return SReal(z3.simplify(f(self.z, zreal(o))))
        except TypeError:
            return NotImplemented

    def __add__(self, o): return self._bin(o, lambda a, b: a + b)
    def __radd__(self, o): return self._bin(o, lambda a, b: b + a)
    def __sub__(self, o): return self._bin(o, lambda a, b: a - b)
    def __rsub__(self, o): return self._bin(o, lambda a, b: b - a)
    def __mul__(self, o): return self._bin(o, lambda a, b: a * b)
    def __rmul__(self, o): return self._bin(o, lambda a, b: b * a)
    def __neg__(self): return SReal(z3.simplify(-self.z))
    def __pos__(self): return self
    def __abs__(self): return SReal(z3.If(self.z >= 0, self.z, -self.z))

    def __truediv__(self, o):
        from fractions import Fraction
        if isinstance(o, (int, Fraction)) and not isinstance(o, bool) and o != 0:
            return SReal(z3.simplify(self.z / zreal(o)))
        return NotImplemented        # division by a symbolic value: the engine refuses (Unsupported)

    def _cmp(self, o, f):
        try:
            return SBool(z3.simplify(f(self.z, zreal(o))))
        except TypeError:
            return NotImplemented

    def __lt__(self, o): return self._cmp(o, lambda a, b: a < b)
    def __le__(self, o): return self._cmp(o, lambda a, b: a <= b)
    def __gt__(self, o): return self._cmp(o, lambda a, b: a > b)
    def __ge__(self, o): return self._cmp(o, lambda a, b: a >= b)

    def __eq__(self, o):
        try:
            return SBool(z3.simplify(self.z == zreal(o)))
        except TypeError:
            return False

    def __ne__(self, o):
        try:
            return SBool(z3.simplify(self.z != zreal(o)))
        except TypeError:
            return True

    __hash__ = Sym.__hash__


class SBool(Sym):
    def __and__(self, o): return SBool(z3.And(self.z, zbool(o)))
    def __rand__(self, o): return SBool(z3.And(zbool(o), self.z))
    def __or__(self, o): return SBool(z3.Or(self.z, zbool(o)))
    def __ror__(self, o): return SBool(z3.Or(zbool(o), self.z))
    def __invert__(self): return SBool(z3.Not(self.z))

    def __eq__(self, o):
        if isinstance(o, (bool, SBool)):
            return SBool(self.z == zbool(o))
        return NotImplemented

    def __bool__(self):
        s = z3.simplify(self.z)
        if z3.is_true(s):
            return True
        if z3.is_false(s):
            return False
        raise TypeError("symbolic bool used as a concrete condition: use spec.And/Or/implies/ite")

    __hash__ = Sym.__hash__


class SStr(Sym):
    def __add__(self, o):
        if isinstance(o, (str, SStr)):
            return SStr(z3.Concat(self.z, zstr(o)))
        return NotImplemented

    def __radd__(self, o):
        if isinstance(o, (str, SStr)):
            return SStr(z3.Concat(zstr(o), self.z))
        return NotImplemented

    def __eq__(self, o):
        if isinstance(o, (str, SStr)):
            return SBool(self.z == zstr(o))
        return False

    def __ne__(self, o):
        if isinstance(o, (str, SStr)):
            return SBool(self.z != zstr(o))
        return True

    __hash__ = Sym.__hash__


class SRef(Sym):
    """Reference to a heap object.  `classes`: tuple of the real classes the object may be an instance of
    (exact dynamic types, not bases)."""
    __slots__ = ("z", "classes")

    def __init__(self, z, classes):
        self.z = z
        self.classes = tuple(classes)

    def __repr__(self):
        return f"SRef({self.z}:{'|'.join(c.__name__ for c in self.classes)})"

    def __eq__(self, o):  # identity-equality classes only; executor handles __eq__ overrides
        if isinstance(o, SRef):
            return SBool(self.z == o.z)
        return False

    __hash__ = Sym.__hash__


class SLoc:
    """A container (dict / set / list) living at heap location (owner, field)."""
    __slots__ = ("owner", "field", "kind")

    def __init__(self, owner, field, kind):
        self.owner = owner  # z3 Int
        self.field = field
        self.kind = kind    # e.g. 'map[str,ref]'

    def __repr__(self):
        return f"SLoc({self.owner}.{self.field}:{self.kind})"


class SSlice:
    """A Python `slice` object whose three fields are None | int | SInt."""
    __slots__ = ("start", "stop", "step")

    def __init__(self, start, stop, step):
        self.start, self.stop, self.step = start, stop, step

    def __repr__(self):
        return f"SSlice({self.start},{self.stop},{self.step})"


class Exc:
    """A raised exception (class only; message text is dropped by extraction)."""
    __slots__ = ("cls", "note")

    def __init__(self, cls, note=""):
        self.cls = cls
        self.note = note

    def __repr__(self):
        return f"Exc({self.cls.__name__}{':' + self.note if self.note else ''})"


class Opaque:
    """A value the engine knows nothing about (result of an uncontracted call, message strings...)."""
    __slots__ = ("why",)

    def __init__(self, why=""):
        self.why = why

    def __repr__(self):
        return f"Opaque({self.why})"


class RecSlot:
    """An unset message-typed field of a protobuf record (reading it auto-vivifies in protobuf): only CopyFrom / plain
    stores through it are modelled."""
    __slots__ = ("owner", "field")

    def __init__(self, owner, field):
        self.owner, self.field = owner, field

    def __repr__(self):
        return f"RecSlot({self.field})"


class RecRepeated:
    """A repeated field of a protobuf record held python-side (an immutable tuple in the ghost state): `append` replaces
    the tuple, so forked states never share a mutable list."""
    __slots__ = ("owner", "field")

    def __init__(self, owner, field):
        self.owner, self.field = owner, field

    def __repr__(self):
        return f"RecRepeated({self.field})"


class ObjDict:
    """`obj.__dict__` of a heap object: only looked into by name (`.get(name, default)`)."""
    __slots__ = ("ref",)

    def __init__(self, ref):
        self.ref = ref

    def __repr__(self):
        return f"ObjDict({self.ref})"


class BoundMethod:
    __slots__ = ("func", "self_")

    def __init__(self, func, self_):
        self.func = func
        self.self_ = self_

    def __repr__(self):
        return f"BoundMethod({getattr(self.func, '__qualname__', self.func)})"


class Unsupported(Exception):
    def __init__(self, what, node=None):
        self.what = what
        self.lineno = getattr(node, "lineno", None)
        super().__init__(f"{what} (line {self.lineno})")
