from .values import *
from .state import *
from .engine import Engine as _EngineBase, SEnum, LoopSpec, SymView, PRefKey
from .expr import ExprMixin
from .calls import CallMixin
from .contract import Contract, Scenario, Obligation, verify_function, NS
from . import loader, solve


class Engine(ExprMixin, CallMixin, _EngineBase):
    pass
