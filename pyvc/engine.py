"""pyvc symbolic executor: Python `ast` (extracted from /repo) -> paths with z3 path conditions.

Every path of the executed function ends as ('ret', state, value) or ('exc', state, Exc).
Contracted callees are replaced by their contract; small helpers listed as `inline` are entered; everything
else is havoc (unknown result, any exception, whole heap havoced).
"""
import ast
import enum
import inspect
import operator
import typing
import z3

from .values import *
from .state import *
from . import loader


class SEnum(Sym):
    """Symbolic member of a real Enum class, encoded as the index into list(cls)."""
    __slots__ = ("z", "cls")

    def __init__(self, z, cls):
        self.z = z
        self.cls = cls

    def members(self):
        return list(self.cls)

    def __eq__(self, o):
        if isinstance(o, SEnum):
            return SBool(self.z == o.z) if o.cls is self.cls else False
        if isinstance(o, enum.Enum):
            if type(o) is not self.cls:
                return False
            return SBool(self.z == self.members().index(o))
        return False

    def __ne__(self, o):
        r = self.__eq__(o)
        return (not r) if isinstance(r, bool) else SBool(z3.Not(r.z))

    __hash__ = Sym.__hash__


class SuperProxy:
    def __init__(self, cls, obj):
        self.cls, self.obj = cls, obj


class LoopSpec:
    """Sidecar loop contract, keyed by (function key, loop ordinal in source order).
    inv(eng, st_entry, st_now) -> z3 Bool;  modifies: heap fields the body may write (callee frames included);
    locals_mod: local names assigned in the body (derived from the AST when None)."""

    def __init__(self, inv, modifies=(), locals_mod=None, name="inv", foreach=None):
        self.inv = inv
        self.modifies = modifies if modifies == "*" else tuple(modifies)
        self.locals_mod = locals_mod
        self.name = name
        # foreach = (elem_fact, all_fact): elem_fact(eng, st, elem) must hold at the end of the body for the arbitrary
        # element; all_fact(eng, st) - the same fact quantified over the collection - is assumed after the loop.  Only
        # sound when nothing the fact reads changes during the loop: accepted for modifies == () only.
        self.foreach = foreach


class Frame:
    def __init__(self, ext, key):
        self.ext = ext
        self.key = key
        self.loop_ordinal = 0


_BINOPS = {
    ast.Add: operator.add, ast.Sub: operator.sub, ast.Mult: operator.mul,
    ast.FloorDiv: operator.floordiv, ast.Mod: operator.mod, ast.Pow: operator.pow,
    ast.Div: operator.truediv, ast.BitOr: operator.or_, ast.BitAnd: operator.and_,
}
_CMPOPS = {
    ast.Lt: operator.lt, ast.LtE: operator.le, ast.Gt: operator.gt, ast.GtE: operator.ge,
}


QUANT_RLIMIT = 100000      # z3 resource units for the quick refutation attempt with quantified facts


class Engine:
    def __init__(self, schema, enums=None, contracts=None, inline=(), loops=None, class_attrs=None,
                 timeout_ms=10000, max_inline_depth=6):
        self.schema = dict(schema)
        self.enums = dict(enums or {})          # field -> Enum class
        self.contracts = dict(contracts or {})  # func key -> contract object (has .apply)
        self.inline = set(inline)
        self.loops = dict(loops or {})          # (func key, ordinal) -> LoopSpec
        self.class_attrs = dict(class_attrs or {})  # (class, attr) -> callable(eng, st, ref) -> value
        self.classids = {}
        self.timeout_ms = timeout_ms
        self.max_inline_depth = max_inline_depth
        self.stats = {"feasibility_checks": 0, "paths": 0, "solver_s": 0.0}
        self.frames = []
        self._fields_cache = {}

    # ------------------------------------------------------------------ solver helpers
    def new_state(self):
        return State(self.schema, self.classids)

    def check(self, assertions, timeout_ms=None, rlimit=None):
        s = z3.Solver()
        s.set("timeout", timeout_ms or self.timeout_ms)
        if rlimit:
            # a resource (not wall-clock) budget: the same answer whatever else the machine is doing
            s.set("rlimit", rlimit)
        for a in assertions:
            s.add(a)
        self.stats["feasibility_checks"] += 1
        return s.check(), s

    def try_concrete_int(self, st, v):
        """the single integer value `v` can take under the path condition, or None"""
        pc = [c for c in st.pc if not self.has_quant(c)]
        r, s = self.check(pc, 2000)
        if r != z3.sat:
            return None
        val = s.model().eval(v.z, model_completion=True)
        if not z3.is_int_value(val):
            return None
        r2, _ = self.check(pc + [v.z != val], 2000)
        return val.as_long() if r2 == z3.unsat else None

    def has_quant(self, e, _cache={}):
        k = e.get_id()
        ent = _cache.get(k)        # (term, answer): holding the term keeps its id from being recycled for another one
        r = ent[1] if ent is not None else None
        if r is None:
            r = False
            todo = [e]
            seen = set()
            while todo:
                x = todo.pop()
                if x.get_id() in seen:
                    continue
                seen.add(x.get_id())
                if z3.is_quantifier(x):
                    r = True
                    break
                todo.extend(x.children())
            _cache[k] = (e, r)
        return r

    def feasible(self, st, extra=None):
        # quantified facts are left out of the feasibility check (sound: only ever keeps more paths alive) ...
        quant = [c for c in st.pc if self.has_quant(c)]
        cs = [c for c in st.pc if not self.has_quant(c)]
        if extra is not None:
            cs.append(extra)
        r, _ = self.check(cs, 2000)
        if r == z3.unsat:
            return False
        if quant:
            # ... unless the solver refutes the path quickly with them (invariants often are what rules a path out)
            r2, _ = self.check(cs + quant, 2000, rlimit=QUANT_RLIMIT)
            if r2 == z3.unsat:
                return False
        return True

    def branch(self, st, cond, label=""):
        """cond: python bool | SBool | z3 Bool.  -> list of (state, bool)"""
        if isinstance(cond, SBool):
            cond = cond.z
        if isinstance(cond, bool):
            return [(st, cond)]
        c = z3.simplify(cond)
        if z3.is_true(c):
            return [(st, True)]
        if z3.is_false(c):
            return [(st, False)]
        out = []
        if self.feasible(st, c):
            a = st.fork()
            a.assume(c)
            a.trace.append(f"{label}:T")
            out.append((a, True))
        if self.feasible(st, z3.Not(c)):
            b = st.fork()
            b.assume(z3.Not(c))
            b.trace.append(f"{label}:F")
            out.append((b, False))
        return out

    # ------------------------------------------------------------------ class / field tables (mechanical)
    def instance_fields(self, cls):
        """Names assigned as `self.X = ...` in __init__/__post_init__ along the MRO, plus dataclass fields."""
        got = self._fields_cache.get(cls)
        if got is not None:
            return got
        names = set(getattr(cls, "__dataclass_fields__", {}).keys())
        for attr in ("model_fields", "__fields__"):          # pydantic models (v2 / v1)
            mf = cls.__dict__.get(attr) or getattr(cls, attr, None)
            if isinstance(mf, dict):
                names |= set(mf.keys())
        for k in cls.__mro__:
            for meth in ("__init__", "__post_init__", "__new__"):
                f = k.__dict__.get(meth)
                if f is None or not hasattr(f, "__code__"):
                    continue
                try:
                    ext = loader.extract_func(f)
                except LookupError:
                    continue
                selfname = ext.node.args.args[0].arg if ext.node.args.args else None
                for n in ast.walk(ext.node):
                    if isinstance(n, ast.Attribute) and isinstance(n.ctx, ast.Store) and \
                            isinstance(n.value, ast.Name) and n.value.id == selfname:
                        names.add(n.attr)
                    if isinstance(n, ast.Call) and isinstance(n.func, ast.Attribute) and \
                            n.func.attr == "__setattr__" and len(n.args) >= 2 and \
                            isinstance(n.args[1], ast.Constant):
                        names.add(n.args[1].value)
        self._fields_cache[cls] = names
        return names

    def classes_of(self, st, ref):
        return st.ghost.get(("cls", zid(ref.z)), ref.classes)

    def narrow(self, st, ref, classes):
        st.ghost[("cls", zid(ref.z))] = tuple(classes)
        ids = [st.classid(c) for c in classes]
        st.assume(z3.Or([st.heap.get("$cls", ref.z) == i for i in ids]))

    def split_classes(self, st, ref, keyfn, label):
        """Group candidate classes of `ref` by keyfn(cls); fork per group.  -> [(state, classes, key)]"""
        groups = {}
        order = []
        if not self.classes_of(st, ref):
            raise Unsupported(f"object {ref!r} of unknown class ({label}); declare field_classes")
        for c in self.classes_of(st, ref):
            k = keyfn(c)
            if k not in groups:
                groups[k] = []
                order.append(k)
            groups[k].append(c)
        if len(order) == 1:
            return [(st, groups[order[0]], order[0])]
        out = []
        for k in order:
            ids = [st.classid(c) for c in groups[k]]
            cond = z3.Or([st.heap.get("$cls", ref.z) == i for i in ids])
            if self.feasible(st, cond):
                s2 = st.fork()
                s2.assume(cond)
                s2.ghost[("cls", zid(ref.z))] = tuple(groups[k])
                s2.trace.append(f"{label}:{'|'.join(c.__name__ for c in groups[k])}")
                out.append((s2, groups[k], k))
        return out

    # ------------------------------------------------------------------ heap field access
    def field_key(self, st, ref, field):
        """Fields are identified by name; a schema entry 'Class.field' overrides the kind for that class."""
        keys = set()
        for c in self.classes_of(st, ref):
            k = field
            for b in c.__mro__:
                if f"{b.__name__}.{field}" in st.heap.schema:
                    k = f"{b.__name__}.{field}"
                    break
            keys.add(k)
        if len(keys) > 1:
            raise Unsupported(f"field {field} has different kinds across {self.classes_of(st, ref)}")
        return keys.pop() if keys else field

    def read_field(self, st, ref, field):
        """Plain instance-field read. -> list of (state, value)"""
        field = self.field_key(st, ref, field)
        kind = st.heap.schema.get(field)
        if kind is None:
            return [(st, Opaque(f"field {field}"))]
        z = ref.z
        if kind == "py":
            k = ("fld", field, zid(z))
            if k not in st.ghost:
                return [(st, Opaque(f"py-field {field} of unknown object"))]
            return [(st, st.ghost[k])]
        if kind == "int":
            return [(st, SInt(st.heap.get(field, z)))]
        if kind == "bool":
            return [(st, SBool(st.heap.get(field, z)))]
        if kind == "real":
            return [(st, SReal(st.heap.get(field, z)))]
        if kind == "str":
            return [(st, SStr(st.heap.get(field, z)))]
        if kind == "enum":
            return [(st, SEnum(st.heap.get(field, z), self.enums[field]))]
        if kind in ("optint", "optstr"):
            isnone = st.heap.get(field + "$none", z)
            out = []
            for s2, b in self.branch(st, isnone, f"{field} is None"):
                if b:
                    out.append((s2, None))
                else:
                    v = s2.heap.get(field, z)
                    out.append((s2, SInt(v) if kind == "optint" else SStr(v)))
            return out
        if kind == "ref" or kind.startswith("ref:"):
            v = st.heap.get(field, z)
            classes = self.ref_field_classes(field)
            out = []
            for s2, b in self.branch(st, v == NULL, f"{field} is None"):
                out.append((s2, None if b else SRef(v, classes)))
            return out
        if kind in CONTAINER_KINDS:
            return [(st, SLoc(z, field, kind))]
        if kind.startswith("opt") and kind[3:] in CONTAINER_KINDS:
            # Optional[container]: None until it is assigned (flag array <field>$none)
            isnone = st.heap.get(field + "$none", z)
            out = []
            for s2, b in self.branch(st, isnone, f"{field} is None"):
                out.append((s2, None if b else SLoc(z, field, kind[3:])))
            return out
        raise Unsupported(f"field kind {kind}")

    def ref_field_classes(self, field):
        return self.field_classes.get(field, ()) if hasattr(self, "field_classes") else ()

    def write_field(self, st, ref, field, val):
        try:
            return self._write_field(st, ref, field, val)
        except TypeError as e:      # a value of another kind than the schema records for this field
            raise Unsupported(f"field `{field}` assigned a value of an unmodelled kind ({e})")

    def _write_field(self, st, ref, field, val):
        for c in self.classes_of(st, ref):       # protobuf oneof: remember which member was set last (ghost)
            fd = getattr(getattr(c, "DESCRIPTOR", None), "fields_by_name", {}).get(field) \
                if hasattr(c, "DESCRIPTOR") else None
            if fd is not None and fd.containing_oneof is not None:
                st.ghost[("oneof", zid(ref.z), fd.containing_oneof.name)] = field
        field = self.field_key(st, ref, field)
        kind = st.heap.schema.get(field)
        if kind is None:
            st.ghost.setdefault("dropped_writes", set())
            st.ghost["dropped_writes"] = st.ghost["dropped_writes"] | {field}
            return
        z = ref.z
        if kind == "py":
            st.ghost[("fld", field, zid(z))] = val
        elif kind == "int":
            st.heap.put(field, z, zint(val))
        elif kind == "bool":
            st.heap.put(field, z, zbool(val))
        elif kind == "real":
            st.heap.put(field, z, zreal(val))
        elif kind == "str":
            st.heap.put(field, z, zstr(val))
        elif kind == "enum":
            ecls = self.enums[field]
            if isinstance(val, SEnum):
                st.heap.put(field, z, val.z)
            elif isinstance(val, ecls):
                st.heap.put(field, z, z3.IntVal(list(ecls).index(val)))
            else:
                raise Unsupported(f"enum field {field} := {val!r}")
        elif kind in ("optint", "optstr"):
            if val is None:
                st.heap.put(field + "$none", z, z3.BoolVal(True))
            else:
                st.heap.put(field + "$none", z, z3.BoolVal(False))
                st.heap.put(field, z, zint(val) if kind == "optint" else zstr(val))
        elif kind == "ref" or kind.startswith("ref:"):
            if val is None:
                st.heap.put(field, z, NULL)
            elif isinstance(val, SRef):
                st.heap.put(field, z, val.z)
            elif isinstance(val, bool):   # e.g. `_elaborated = False/True` on a ref-typed flag is a schema error
                raise Unsupported(f"ref field {field} := {val!r}")
            else:
                raise Unsupported(f"ref field {field} := {val!r}")
        elif kind.startswith("opt") and kind[3:] in CONTAINER_KINDS:
            if val is None:
                st.heap.put(field + "$none", z, z3.BoolVal(True))
            elif isinstance(val, SLoc) and val.kind == kind[3:]:
                st.heap.put(field + "$none", z, z3.BoolVal(False))
                st.heap.put(field, z, st.heap.get(val.field, val.owner))
            else:
                raise Unsupported(f"optional container field {field} := {val!r}")
        elif kind in CONTAINER_KINDS:
            if isinstance(val, SLoc) and val.kind == kind:
                st.heap.put(field, z, st.heap.get(val.field, val.owner))
            elif isinstance(val, (dict, set, list)) and len(val) == 0:
                st.heap.put(field, z, empty_container(kind))
            else:
                raise Unsupported(f"container field {field} := {val!r}")
        else:
            raise Unsupported(f"field kind {kind}")

    def elem_key(self, st, v):
        """Key under which a hashable object is stored in a set[key] / map[key,ref]: its equivalence class under
        __eq__ (an uninterpreted function of the reference: __eq__/__hash__ are assumed consistent)."""
        if not isinstance(v, SRef):
            raise Unsupported(f"key of {v!r}")
        return z3.Function("eqclass", z3.IntSort(), z3.IntSort())(v.z)

    # ------------------------------------------------------------------ truthiness
    def truth(self, st, v):
        if isinstance(v, SBool):
            return v.z
        if isinstance(v, SInt):
            return v.z != 0
        if isinstance(v, SStr):
            return z3.Length(v.z) > 0
        if isinstance(v, SRef):
            for c in self.classes_of(st, v):
                if any(("__bool__" in k.__dict__ or "__len__" in k.__dict__) for k in c.__mro__):
                    raise Unsupported(f"truthiness of {c.__name__} with __bool__/__len__")
            return True  # a live object reference
        if isinstance(v, SLoc):
            if v.kind.startswith("seq"):
                return z3.Length(st.heap.get(v.field, v.owner)) > 0
            raise Unsupported("truthiness of symbolic dict/set")
        if isinstance(v, (Opaque, Exc)):
            raise Unsupported(f"truthiness of {v!r}")
        if isinstance(v, (SEnum, SSlice)):
            return True
        return bool(v)

    # ------------------------------------------------------------------ function execution
    def run(self, ext, st, argvals):
        """Execute extracted function with bound args (dict name -> value).
        -> list of ('ret'|'exc', state, value)"""
        saved = st.locals
        st.locals = dict(argvals)
        fr = Frame(ext, ext.key)
        self.frames.append(fr)
        try:
            outs = self.exec_block(ext.node.body, st)
        finally:
            self.frames.pop()
        res = []
        for kind, s2, v in outs:
            s2.locals = dict(saved)
            if kind == "ok":
                res.append(("ret", s2, None))
            elif kind in ("ret", "exc", "cut"):
                res.append((kind, s2, v))
            else:
                raise Unsupported(f"{kind} outside loop")
        return res

    def bind_args(self, ext, st, args, kwargs):
        """Bind positional/keyword args to parameter names (defaults evaluated in function globals)."""
        a = ext.node.args
        names = [x.arg for x in a.posonlyargs + a.args]
        bound = {}
        if len(args) > len(names) and a.vararg is None:
            return Exc(TypeError, "too many positional arguments")
        for n, v in zip(names, args):
            bound[n] = v
        if a.vararg is not None:
            bound[a.vararg.arg] = tuple(args[len(names):])
        kw = dict(kwargs)
        kwonly = [x.arg for x in a.kwonlyargs]
        for n in names + kwonly:
            if n in kw:
                if n in bound:
                    return Exc(TypeError, f"multiple values for {n}")
                bound[n] = kw.pop(n)
        if a.kwarg is not None:
            bound[a.kwarg.arg] = kw
            kw = {}
        if kw:
            return Exc(TypeError, f"unexpected keyword {sorted(kw)}")
        # defaults
        defaults = dict(zip(names[len(names) - len(a.defaults):], a.defaults))
        for n, d in zip(kwonly, a.kw_defaults):
            if d is not None:
                defaults[n] = d
        for n in names + kwonly:
            if n not in bound:
                if n in defaults:
                    d = defaults[n]
                    if isinstance(d, ast.Constant):
                        bound[n] = d.value
                    else:
                        try:
                            bound[n] = eval(compile(ast.Expression(d), "<default>", "eval"), ext.globals)
                        except Exception:
                            raise Unsupported("non-constant default", d)
                else:
                    return Exc(TypeError, f"missing argument {n}")
        return bound

    # ------------------------------------------------------------------ statements
    def exec_block(self, stmts, st):
        """-> list of (kind, state, value); kind in ok/ret/exc/brk/cont"""
        cur = [st]
        done = []
        for node in stmts:
            nxt = []
            for s in cur:
                for kind, s2, v in self.exec_stmt(node, s):
                    if kind == "ok":
                        nxt.append(s2)
                    else:
                        done.append((kind, s2, v))
            cur = nxt
            if not cur:
                break
        return done + [("ok", s, None) for s in cur]

    def exec_stmt(self, node, st):
        m = getattr(self, "st_" + type(node).__name__, None)
        if m is None:
            raise Unsupported(f"statement {type(node).__name__}", node)
        return m(node, st)

    def st_Pass(self, node, st):
        return [("ok", st, None)]

    def st_Expr(self, node, st):
        if isinstance(node.value, ast.Constant):   # docstring
            return [("ok", st, None)]
        out = []
        self._discard = node.value
        try:
            rs = self.ev(node.value, st)
        finally:
            self._discard = None
        for s2, v in rs:
            out.append(("exc", s2, v) if isinstance(v, Exc) else ("ok", s2, None))
        return out

    def st_Return(self, node, st):
        if node.value is None:
            return [("ret", st, None)]
        out = []
        for s2, v in self.ev(node.value, st):
            out.append(("exc", s2, v) if isinstance(v, Exc) else ("ret", s2, v))
        return out

    def st_Raise(self, node, st):
        if node.exc is None:
            cur = st.ghost.get("handling")
            if cur is None:
                raise Unsupported("bare raise outside handler", node)
            return [("exc", st, cur)]
        out = []
        for s2, v in self.ev(node.exc, st):
            if isinstance(v, Exc):
                out.append(("exc", s2, v))
            elif inspect.isclass(v) and issubclass(v, BaseException):
                out.append(("exc", s2, Exc(v)))
            elif isinstance(v, SRef) and all(issubclass(c, BaseException) for c in self.classes_of(s2, v)):
                orig = s2.ghost.get(("excobj", zid(v.z)))
                cls = orig.cls if orig is not None else self.classes_of(s2, v)[0]
                e = Exc(cls, "stored")
                out.append(("exc", s2, e))
            else:
                raise Unsupported(f"raise of {v!r}", node)
        return out

    def st_Import(self, node, st):
        raise Unsupported("import statement", node)

    def st_ImportFrom(self, node, st):
        import importlib
        fr = self.frames[-1]
        pkg = fr.ext.globals.get("__package__") or fr.ext.globals.get("__name__", "").rpartition(".")[0]
        name = "." * node.level + (node.module or "")
        mod = importlib.import_module(name, pkg) if node.level else importlib.import_module(node.module)
        for al in node.names:
            st.locals[al.asname or al.name] = getattr(mod, al.name)
        return [("ok", st, None)]

    def st_Global(self, node, st):
        raise Unsupported("global statement", node)

    def st_Assert(self, node, st):
        out = []
        for s2, v in self.ev(node.test, st):
            if isinstance(v, Exc):
                out.append(("exc", s2, v))
                continue
            for s3, b in self.branch(s2, self.truth(s2, v), f"assert@{node.lineno}"):
                out.append(("ok", s3, None) if b else ("exc", s3, Exc(AssertionError)))
        return out

    def st_If(self, node, st):
        out = []
        for s2, v in self.ev(node.test, st):
            if isinstance(v, Exc):
                out.append(("exc", s2, v))
                continue
            for s3, b in self.branch(s2, self.truth(s2, v), f"if@{node.lineno}"):
                out.extend(self.exec_block(node.body if b else node.orelse, s3))
        return out

    def st_Assign(self, node, st):
        out = []
        for s2, v in self.ev(node.value, st):
            if isinstance(v, Exc):
                out.append(("exc", s2, v))
                continue
            states = [s2]
            for tgt in node.targets:
                nxt = []
                for s3 in states:
                    for kind, s4, e in self.assign(tgt, s3, v):
                        if kind == "ok":
                            nxt.append(s4)
                        else:
                            out.append((kind, s4, e))
                states = nxt
            out.extend(("ok", s, None) for s in states)
        return out

    def st_AnnAssign(self, node, st):
        if node.value is None:
            return [("ok", st, None)]
        fake = ast.Assign(targets=[node.target], value=node.value, lineno=node.lineno)
        return self.st_Assign(fake, st)

    def st_AugAssign(self, node, st):
        load = ast.copy_location(_as_load(node.target), node)
        binop = ast.copy_location(ast.BinOp(left=load, op=node.op, right=node.value), node)
        fake = ast.Assign(targets=[node.target], value=binop, lineno=node.lineno)
        return self.st_Assign(fake, st)

    def assign(self, tgt, st, v):
        """-> list of (kind, state, exc)"""
        if isinstance(tgt, ast.Name):
            st.locals[tgt.id] = v
            return [("ok", st, None)]
        if isinstance(tgt, ast.Attribute):
            out = []
            for s2, obj in self.ev(tgt.value, st):
                if isinstance(obj, Exc):
                    out.append(("exc", s2, obj))
                    continue
                for s3, r in self.setattr_(s2, obj, tgt.attr, v, tgt):
                    out.append(("exc", s3, r) if isinstance(r, Exc) else ("ok", s3, None))
            return out
        if isinstance(tgt, ast.Subscript):
            out = []
            for s2, vals in self.ev_many([tgt.value, tgt.slice], st):
                if isinstance(vals, Exc):
                    out.append(("exc", s2, vals))
                    continue
                obj, key = vals
                for s3, r in self.setitem(s2, obj, key, v, tgt):
                    out.append(("exc", s3, r) if isinstance(r, Exc) else ("ok", s3, None))
            return out
        if isinstance(tgt, (ast.Tuple, ast.List)):
            if isinstance(v, (tuple, list)) and len(v) == len(tgt.elts):
                states = [st]
                out = []
                for t, x in zip(tgt.elts, v):
                    nxt = []
                    for s in states:
                        for kind, s2, e in self.assign(t, s, x):
                            (nxt if kind == "ok" else out).append(s2 if kind == "ok" else (kind, s2, e))
                    states = nxt
                return out + [("ok", s, None) for s in states]
            raise Unsupported("tuple unpack of non-concrete sequence", tgt)
        raise Unsupported(f"assignment target {type(tgt).__name__}", tgt)

    def st_Try(self, node, st):
        if node.finalbody:
            inner = ast.Try(body=node.body, handlers=node.handlers, orelse=node.orelse, finalbody=[])
            ast.copy_location(inner, node)
            outs = self.st_Try(inner, st) if (node.handlers or node.orelse) else self.exec_block(node.body, st)
            res = []
            for kind, s2, v in outs:
                if kind == "cut":
                    res.append((kind, s2, v))
                    continue
                for k2, s3, v2 in self.exec_block(node.finalbody, s2):
                    if k2 == "ok":
                        res.append((kind, s3, v))     # the original outcome resumes after the finally block
                    else:
                        res.append((k2, s3, v2))      # the finally block itself returned / raised / broke out
            return res
        out = []
        for kind, s2, v in self.exec_block(node.body, st):
            if kind != "exc":
                if kind == "ok" and node.orelse:
                    out.extend(self.exec_block(node.orelse, s2))
                else:
                    out.append((kind, s2, v))
                continue
            handled = False
            for h in node.handlers:
                if h.type is None:
                    match = True
                else:
                    tv = self.ev_concrete(h.type, s2)
                    tv = tv if isinstance(tv, tuple) else (tv,)
                    match = issubclass(v.cls, tv)
                    if not match and any(issubclass(t, v.cls) for t in tv) and getattr(v, "note", "") != "stored":
                        # an exception known only by a base class may or may not be of the handled subclass: both
                        s3 = s2.fork()
                        s3.ghost["handling"] = v
                        if h.name:
                            s3.locals[h.name] = s3.alloc(v.cls)
                        out.extend(self.exec_block(h.body, s3))
                if match:
                    s2.ghost["handling"] = v
                    if h.name:
                        # the caught exception object: a live object of the exception's class
                        eref = s2.alloc(v.cls)
                        s2.ghost[("excobj", zid(eref.z))] = v
                        s2.locals[h.name] = eref
                    out.extend(self.exec_block(h.body, s2))
                    handled = True
                    break
            if not handled:
                out.append(("exc", s2, v))
        return out

    def st_Break(self, node, st):
        return [("brk", st, None)]

    def st_Continue(self, node, st):
        return [("cont", st, None)]

    def st_FunctionDef(self, node, st):
        raise Unsupported("nested function definition", node)

    # ---- loops
    def _loop_spec(self, node):
        fr = self.frames[-1]
        ords = fr.ext.__dict__.setdefault("_loop_ordinals", {})
        if not ords:
            k = 0
            for n in ast.walk(fr.ext.node):
                if isinstance(n, (ast.For, ast.While)):
                    ords[id(n)] = None
            # source order
            loops = sorted([n for n in ast.walk(fr.ext.node) if isinstance(n, (ast.For, ast.While))],
                           key=lambda n: (n.lineno, n.col_offset))
            for k, n in enumerate(loops):
                ords[id(n)] = k
        return self.loops.get((fr.key, ords[id(node)])), ords[id(node)]

    def st_For(self, node, st):
        out = []
        for s2, it in self.ev(node.iter, st):
            if isinstance(it, Exc):
                out.append(("exc", s2, it))
                continue
            if isinstance(it, RecRepeated):     # a repeated protobuf field held python-side: its current tuple
                cur = self.read_field(s2, it.owner, it.field)[0][1]
                if not isinstance(cur, tuple):
                    raise Unsupported("iteration over a repeated field of unknown content", node)
                it = cur
            if isinstance(it, (list, tuple, range)) or (isinstance(it, dict)):
                items = list(it)
                out.extend(self._unrolled_for(node, s2, items))
            elif isinstance(it, (SLoc, SymView)):
                out.extend(self._spec_for(node, s2, it))
            else:
                raise Unsupported(f"for over {it!r}", node)
        return out

    def _unrolled_for(self, node, st, items):
        out = []
        states = [st]
        for x in items:
            nxt = []
            for s in states:
                for kind0, s1, e in self.assign(node.target, s, x):
                    if kind0 != "ok":
                        out.append((kind0, s1, e))
                        continue
                    for kind, s2, v in self.exec_block(node.body, s1):
                        if kind in ("ok", "cont"):
                            nxt.append(s2)
                        elif kind == "brk":
                            out.append(("ok", s2, None))
                        else:
                            out.append((kind, s2, v))
            states = nxt
        for s in states:
            if node.orelse:
                out.extend(self.exec_block(node.orelse, s))
            else:
                out.append(("ok", s, None))
        return out

    def _assigned_names(self, body):
        names = set()
        for b in body:
            for n in ast.walk(b):
                if isinstance(n, ast.Name) and isinstance(n.ctx, ast.Store):
                    names.add(n.id)
        return names

    def _spec_for(self, node, st, it):
        spec, ordinal = self._loop_spec(node)
        if spec is None:
            raise Unsupported(f"loop #{ordinal} over symbolic collection needs a loop contract", node)
        fr = self.frames[-1]
        oname = f"{fr.key}/loop{ordinal}"
        entry = st.fork()
        # 1. invariant holds on entry
        st.obligations.append((f"{oname}/{spec.name}.init", list(st.pc), zbool(spec.inv(self, entry, st))))
        # 2. arbitrary iteration: havoc what the body may modify, assume invariant
        h = st.fork()
        if spec.modifies == "*":
            h.heap.havoc_all()
            for f in [k for k in h.heap.arrays if k.startswith("$") and k not in ("$alive", "$cls")]:
                h.heap.havoc_field(f)
        else:
            for f in spec.modifies:
                h.heap.havoc_field(f)
                if h.heap.schema.get(f) in ("optint", "optstr"):
                    h.heap.havoc_field(f + "$none")
        mods = spec.locals_mod if spec.locals_mod is not None else self._assigned_names(node.body)
        for n in mods:
            if n in h.locals:
                h.locals[n] = self.havoc_like(h, h.locals[n])
        h.assume(zbool(spec.inv(self, entry, h)))
        out = []
        # 3. body on an arbitrary element
        b = h.fork()
        elem = self.arbitrary_element(b, it)
        if elem is not None:
            for kind0, s1, e in self.assign(node.target, b, elem):
                if kind0 != "ok":
                    out.append((kind0, s1, e))
                    continue
                for kind, s2, v in self.exec_block(node.body, s1):
                    if kind in ("ok", "cont"):
                        s2.obligations.append((f"{oname}/{spec.name}.step", list(s2.pc),
                                               zbool(spec.inv(self, entry, s2))))
                        if spec.foreach is not None:
                            s2.obligations.append((f"{oname}/{spec.name}.foreach-element", list(s2.pc),
                                                   zbool(spec.foreach[0](self, s2, elem))))
                        # path ends here (cut point); keep its obligations alive through a terminal marker
                        out.append(("cut", s2, None))
                    elif kind == "brk":
                        out.append(("ok", s2, None))
                    else:
                        out.append((kind, s2, v))
        # 4. exit
        if spec.foreach is not None:
            if spec.modifies != ():
                raise Unsupported("foreach facts need a loop that modifies nothing", node)
            h.assume(zbool(spec.foreach[1](self, h)))
        if node.orelse:
            out.extend(self.exec_block(node.orelse, h))
        else:
            out.append(("ok", h, None))
        return out

    def havoc_like(self, st, v):
        if isinstance(v, SInt) or (isinstance(v, int) and not isinstance(v, bool)):
            return SInt(fresh("hv", z3.IntSort()))
        if isinstance(v, (SBool, bool)):
            return SBool(fresh("hv", z3.BoolSort()))
        if isinstance(v, (SStr, str)):
            return SStr(fresh("hv", z3.StringSort()))
        if isinstance(v, SRef):
            r = SRef(fresh("hv", Ref), v.classes)
            return r
        return Opaque("havoc")

    def arbitrary_element(self, st, it):
        view = it if isinstance(it, SymView) else SymView(it, "iter")
        loc = view.loc
        c = st.heap.get(loc.field, loc.owner)
        if loc.kind == "map[str,ref]":
            k = fresh("k", z3.StringSort())
            v = z3.Select(c, k)
            st.assume(v != NULL)
            st.assume(st.heap.get("$alive", v))
            ref = SRef(v, self.ref_field_classes(loc.field + "[]"))
            if view.what in ("iter", "keys"):
                return SStr(k)
            if view.what == "values":
                return ref
            return (SStr(k), ref)
        if loc.kind == "set[ref]":
            e = fresh("e", Ref)
            st.assume(z3.Select(c, e))
            st.assume(e != NULL)
            return SRef(e, self.ref_field_classes(loc.field + "[]"))
        if loc.kind == "seq[ref]":
            i = fresh("i", z3.IntSort())
            st.assume(z3.And(i >= 0, i < z3.Length(c)))
            return SRef(c[i], self.ref_field_classes(loc.field + "[]"))
        if loc.kind == "seq[str]":
            i = fresh("i", z3.IntSort())
            st.assume(z3.And(i >= 0, i < z3.Length(c)))
            return SStr(c[i])
        if loc.kind == "set[pref]":
            i = fresh("pi", Ref)
            p = fresh("pp", z3.StringSort())
            st.assume(z3.Select(c, i, p))
            return PRefKey(i, p)
        raise Unsupported(f"iteration over {loc.kind}")

    def st_While(self, node, st):
        spec, ordinal = self._loop_spec(node)
        # constant-bounded concrete loops: try plain unrolling first when no spec is given
        if spec is None:
            return self._unrolled_while(node, st, 64)
        fr = self.frames[-1]
        oname = f"{fr.key}/loop{ordinal}"
        entry = st.fork()
        st.obligations.append((f"{oname}/{spec.name}.init", list(st.pc), zbool(spec.inv(self, entry, st))))
        h = st.fork()
        for f in spec.modifies:
            h.heap.havoc_field(f)
        mods = spec.locals_mod if spec.locals_mod is not None else self._assigned_names(node.body)
        for n in mods:
            if n in h.locals:
                h.locals[n] = self.havoc_like(h, h.locals[n])
        h.assume(zbool(spec.inv(self, entry, h)))
        out = []
        for s2, v in self.ev(node.test, h):
            if isinstance(v, Exc):
                out.append(("exc", s2, v))
                continue
            for s3, b in self.branch(s2, self.truth(s2, v), f"while@{node.lineno}"):
                if not b:
                    out.append(("ok", s3, None))
                    continue
                dec0 = spec.decreases(self, s3) if getattr(spec, "decreases", None) else None
                for kind, s4, e in self.exec_block(node.body, s3):
                    if kind in ("ok", "cont"):
                        s4.obligations.append((f"{oname}/{spec.name}.step", list(s4.pc),
                                               zbool(spec.inv(self, entry, s4))))
                        if dec0 is not None:
                            dec1 = spec.decreases(self, s4)
                            s4.obligations.append((f"{oname}/decreases", list(s4.pc),
                                                   z3.And(zint(dec0) >= 0, zint(dec1) < zint(dec0))))
                        out.append(("cut", s4, None))
                    elif kind == "brk":
                        out.append(("ok", s4, None))
                    else:
                        out.append((kind, s4, e))
        return out

    def _unrolled_while(self, node, st, bound):
        out = []
        states = [st]
        for _ in range(bound):
            nxt = []
            for s in states:
                for s2, v in self.ev(node.test, s):
                    if isinstance(v, Exc):
                        out.append(("exc", s2, v))
                        continue
                    t = self.truth(s2, v)
                    if not isinstance(t, bool):
                        t = z3.simplify(t)
                        if z3.is_true(t):
                            t = True
                        elif z3.is_false(t):
                            t = False
                        else:
                            raise Unsupported("while loop with symbolic guard needs a loop contract", node)
                    if not t:
                        out.append(("ok", s2, None))
                        continue
                    for kind, s3, e in self.exec_block(node.body, s2):
                        if kind in ("ok", "cont"):
                            nxt.append(s3)
                        elif kind == "brk":
                            out.append(("ok", s3, None))
                        else:
                            out.append((kind, s3, e))
            states = nxt
            if not states:
                return out
        raise Unsupported("while loop not finished within unroll bound", node)


class SymView:
    """dict.keys()/values()/items() view (or plain iteration) of a symbolic container."""
    def __init__(self, loc, what):
        self.loc = loc
        self.what = what


class PRefKey:
    """A PortRef seen only through its key (inst, portname) – element of a set[pref]."""
    def __init__(self, inst, portname):
        self.inst = inst
        self.portname = portname


def _as_load(t):
    import copy
    t2 = copy.deepcopy(t)
    for n in ast.walk(t2):
        if hasattr(n, "ctx"):
            n.ctx = ast.Load()
    return t2
