"""Contracts for pyvc and the function-by-function verifier.

A Contract describes one real function.  It is used twice:
 * verify():   the function body (extracted from /repo) is executed symbolically under each scenario's
               precondition and every clause becomes an obligation  path-condition => clause;
 * apply():    at a call site inside another verified function only the contract is visible: the precondition is an
               obligation of the caller, the frame is havoced and the postcondition assumed.
"""
import time
import types
import z3

from .values import *
from .state import *
from . import loader


class NS:
    """Bound-argument namespace handed to contract clauses."""
    def __init__(self, d):
        self.__dict__.update(d)

    def __repr__(self):
        return f"NS({self.__dict__})"


class Obligation:
    def __init__(self, name, kind, pc, goal, fkey, scenario, path, meta=None):
        self.name = name
        self.kind = kind
        self.pc = pc
        self.goal = goal
        self.fkey = fkey
        self.scenario = scenario
        self.path = path
        self.meta = meta or {}
        self.status = None      # proved | failed | unknown
        self.model = None
        self.solver = None
        self.time_s = 0.0

    def smt2(self):
        s = z3.Solver()
        for c in self.pc:
            s.add(c)
        s.add(z3.Not(self.goal))
        return s.to_smt2()


class Scenario:
    def __init__(self, name, setup):
        self.name = name
        self.setup = setup   # setup(eng, st) -> dict of argument values (may st.assume)


class Contract:
    key = None
    props = ()
    raises = ()          # exception classes that may escape
    posts = ()           # [(name, fn(eng, st0, st, a, result) -> bool-ish)]
    xposts = ()          # [(name, fn(eng, st0, st, a, exc_cls) -> bool-ish)]
    reasons = {}         # exc class -> fn(eng, st0, a) -> bool-ish : the exception may escape only if it holds
    must_raise = ()      # [(name, fn(eng, st0, a) -> bool-ish)]: when it holds, a normal return is a violation
    pure = True          # no heap effect visible to callers
    returns = "opaque"   # kind of the result for callers: int|bool|str|none|ref|opaque|self-defined
    result_classes = ()

    def scenarios(self, eng):
        raise NotImplementedError

    def pre(self, eng, st, a):
        return True

    # ---- caller side -------------------------------------------------------------------------
    def bind(self, eng, args, kwargs):
        ext = loader.extract(self.key)
        return ext, eng.bind_args(ext, None, list(args), dict(kwargs))

    def make_result(self, eng, st, a):
        k = self.returns
        if k == "int":
            return SInt(fresh("res", z3.IntSort()))
        if k == "bool":
            return SBool(fresh("res", z3.BoolSort()))
        if k == "str":
            return SStr(fresh("res", z3.StringSort()))
        if k == "none":
            return None
        if k == "ref":
            r = fresh("res", Ref)
            st.assume(r != NULL)
            return SRef(r, self.result_classes)
        return Opaque(f"result of {self.key}")

    def frame(self, eng, st, a):
        """Havoc what the function may modify (default: nothing if pure, whole heap otherwise)."""
        if not self.pure:
            st.heap.havoc_all()

    def apply(self, eng, st, args, kwargs, node=None):
        ext, bound = self.bind(eng, args, kwargs)
        if isinstance(bound, Exc):
            return [(st, bound)]
        a = NS(bound)
        fr = eng.frames[-1] if eng.frames else None
        site = f"{fr.key}@{getattr(node, 'lineno', '?')}" if fr else "?"
        pre = self.pre(eng, st, a)
        if pre is not True:
            st.obligations.append((f"pre@callsite/{self.key}/{site}", list(st.pc), zbool(pre)))
            st.assume(pre)
        st.calls.append((self.key, a))
        st0 = st.fork()
        out = []
        # normal outcome
        n = st.fork()
        self.frame(eng, n, a)
        res = self.make_result(eng, n, a)
        ok = True
        for name, fn in self.posts:
            c = fn(eng, st0, n, a, res)
            if c is False:
                ok = False
                break
            if c is not True:
                n.assume(c)
        for name, fn in self.must_raise:
            c = fn(eng, st0, a)
            if c is True:
                ok = False
            elif c is not False:
                n.assume(z3.Not(zbool(c)))
        if ok and eng.feasible(n):
            out.append((n, res))
        # exceptional outcomes
        for E in self.raises:
            x = st.fork()
            self.frame(eng, x, a)
            rs = self.reasons.get(E)
            if rs is not None:
                c = rs(eng, st0, a)
                if c is False:
                    continue
                if c is not True:
                    x.assume(c)
            for name, fn in self.xposts:
                c = fn(eng, st0, x, a, E)
                if c is not True:
                    x.assume(c)
            if eng.feasible(x):
                out.append((x, Exc(E, f"from {self.key}")))
        return out


# ------------------------------------------------------------------------------------------------
# Verification of one function against its contract
# ------------------------------------------------------------------------------------------------
class FunctionReport:
    def __init__(self, key):
        self.key = key
        self.sha = None
        self.lines = None
        self.path = None
        self.obligations = []
        self.scenarios = 0
        self.paths = 0
        self.unsupported = None
        self.cover_failed = []
        self.unreachable = 0
        self.vacuous = []
        self.inlined = set()
        self.havocs = set()
        self.time_s = 0.0


def verify_function(eng, con, only_scenarios=None):
    """Generate every obligation of `con` from the current source of its function."""
    rep = FunctionReport(con.key)
    t0 = time.time()
    try:
        ext = loader.extract(con.key)
    except Exception as e:  # function vanished / renamed
        rep.unsupported = f"extract: {type(e).__name__}: {e}"
        return rep
    rep.sha, rep.lines, rep.path = ext.sha, ext.lines, ext.path
    own = eng.contracts.pop(con.key, None)   # the function's own contract is not used for itself (except recursion)
    if getattr(con, "recursive", False) and own is not None:
        eng.contracts[con.key] = own
    try:
        for sc in con.scenarios(eng):
            if only_scenarios and sc.name not in only_scenarios:
                continue
            rep.scenarios += 1
            st = eng.new_state()
            try:
                argd = sc.setup(eng, st)
                a = NS(argd)
                pre = con.pre(eng, st, a)
                if pre is not True:
                    st.assume(pre)
                # vacuity guard: precondition satisfiable
                r, _ = eng.check(st.pc, 1000)
                if r == z3.unsat:
                    rep.cover_failed.append((sc.name, str(r)))
                    continue
                if r != z3.sat:
                    rep.cover_unknown = getattr(rep, "cover_unknown", []) + [sc.name]
                st0 = st.fork()
                eng.cuts = []
                outs = eng.run(ext, st, dict(argd))
                outs = outs + [("cut", s, None) for s in eng.cuts]
            except Unsupported as e:
                rep.unsupported = f"{sc.name}: {e}"
                continue
            reachable_normal = 0
            for pi, (kind, s2, v) in enumerate(outs):
                r, _ = eng.check(s2.pc, 1000)
                if r == z3.unsat:
                    rep.unreachable += 1
                elif kind in ("ret", "cut"):
                    reachable_normal += 1
            if outs and reachable_normal == 0 and not getattr(sc, "expect_raise", False):
                rep.vacuous.append(sc.name)
            for pi, (kind, s2, v) in enumerate(outs):
                rep.paths += 1
                rep.inlined |= set(s2.ghost.get("inlined", ()))
                rep.havocs |= set(s2.ghost.get("havoc", ()))
                pname = f"{con.key}/{sc.name}/p{pi}"
                meta = {"trace": list(s2.trace), "kind": kind, "havoc": list(s2.ghost.get("havoc", ()))}

                def add(name, okind, pc, goal):
                    if callable(goal):
                        try:
                            goal = goal()
                        except Unsupported as e:    # the clause cannot be evaluated on this path
                            rep.unsupported = f"{sc.name}: clause {name}: {e}"
                            return
                        except (AttributeError, TypeError) as e:
                            # the clause met a value of a shape it was not written for (e.g. an opaque argument after
                            # the code changed): it cannot be evaluated here - unsupported, not a checker crash
                            rep.unsupported = f"{sc.name}: clause {name} not evaluable on this path: {type(e).__name__}: {e}"
                            return
                    if goal is True:
                        goal = z3.BoolVal(True)
                    if goal is False:
                        goal = z3.BoolVal(False)
                    rep.obligations.append(Obligation(f"{pname}/{name}", okind, pc, zbool(goal), con.key,
                                                      sc.name, pi, dict(meta)))
                # obligations collected along the path (call-site preconditions, loop invariants)
                for (oname, opc, goal) in s2.obligations:
                    add(oname, "callsite" if oname.startswith("pre@") else "loop", opc, goal)
                if kind == "ret":
                    for name, fn in con.posts:
                        add(f"post.{name}", "post", list(s2.pc), lambda fn=fn: fn(eng, st0, s2, a, v))
                    for name, fn in con.must_raise:
                        add(f"rejects.{name}", "post", list(s2.pc), lambda fn=fn: _not(fn(eng, st0, a)))
                elif kind == "exc":
                    E = v.cls
                    allowed = [X for X in con.raises if issubclass(E, X)] if not (E is Exception and v.note == "any") else []
                    if not allowed:
                        add(f"raises.{E.__name__}{'(' + v.note + ')' if v.note else ''}", "raises", list(s2.pc),
                            False)
                    else:
                        add(f"raises-listed.{E.__name__}", "raises", list(s2.pc), True)
                        for X in allowed:
                            rs = con.reasons.get(X)
                            if rs is not None:
                                add(f"reason.{X.__name__}", "raises", list(s2.pc), lambda rs=rs: rs(eng, st0, a))
                        for name, fn in con.xposts:
                            add(f"xpost.{name}", "xpost", list(s2.pc), lambda fn=fn: fn(eng, st0, s2, a, E))
    finally:
        if own is not None:
            eng.contracts[con.key] = own
    rep.time_s = time.time() - t0
    return rep


def _not(c):
    if c is True:
        return False
    if c is False:
        return True
    return z3.Not(zbool(c))
