"""Encodings of CPython built-in semantics used by the executor (trusted; cross-checked concretely every run)."""
import z3
from .values import *


def zmax(a, b):
    return z3.If(a >= b, a, b)


def zmin(a, b):
    return z3.If(a <= b, a, b)


def slice_indices(sl, length):
    """slice.indices(length) for SSlice/slice with a concrete step (None or non-zero int).
    CPython: PySlice_Unpack + PySlice_AdjustIndices.  -> (start, stop, step) as SInt/int"""
    step = 1 if sl.step is None else sl.step
    if not isinstance(step, int) or isinstance(step, bool):
        raise Unsupported("slice.indices with symbolic step")
    n = zint(length)
    if step > 0:
        lo, hi = z3.IntVal(0), n            # clamp range for both
        dstart, dstop = z3.IntVal(0), n
    else:
        lo, hi = z3.IntVal(-1), n - 1
        dstart, dstop = n - 1, z3.IntVal(-1)

    def adj(v, default):
        if v is None:
            return default
        x = zint(v)
        x = z3.If(x < 0, x + n, x)
        return zmin(zmax(x, lo), hi)
    return (SInt(z3.simplify(adj(sl.start, dstart))), SInt(z3.simplify(adj(sl.stop, dstop))), step)


class SRange:
    __slots__ = ("start", "stop", "step")

    def __init__(self, start, stop, step):
        self.start, self.stop, self.step = start, stop, step

    def length(self):
        a, b, c = zint(self.start), zint(self.stop), self.step
        if c > 0:
            return SInt(z3.If(a < b, (b - a - 1) / c + 1, 0))
        return SInt(z3.If(b < a, (a - b - 1) / (-c) + 1, 0))
