"""Discharging obligations: z3 first, cvc5 (binary) for what z3 leaves unknown."""
import os
import subprocess
import tempfile
import time
import z3


def solve_one(ob, timeout_ms=10000, use_cvc5=True):
    """Sets ob.status in {proved, failed, unknown}, ob.model (z3 model or None), ob.solver, ob.time_s."""
    t0 = time.time()
    g = z3.simplify(ob.goal)
    if z3.is_true(g):
        ob.status, ob.solver, ob.time_s = "proved", "simplifier", 0.0
        return ob
    s = z3.Solver()
    quantified = any(_has_quant(c) for c in list(ob.pc) + [ob.goal])
    if ob.meta.get("first") == "cvc5" and not quantified:
        # query classes on which z3 is unstable (mixed real/integer floor terms): cvc5 decides them in milliseconds
        for c in ob.pc:
            s.add(c)
        s.add(z3.Not(ob.goal))
        r2 = run_cvc5(s.to_smt2(), timeout_ms)
        if r2 == "unsat":
            ob.status, ob.solver, ob.time_s = "proved", "cvc5", time.time() - t0
            return ob
        if r2 == "sat":
            ob.status, ob.solver = "failed", "cvc5"
            s.set("timeout", min(timeout_ms, 5000))
            if s.check() == z3.sat:
                ob.model = s.model()
            ob.time_s = time.time() - t0
            return ob
        s = z3.Solver()
    stringy = "str." in ob.goal.sexpr() or "re." in ob.goal.sexpr()
    first_budget = min(timeout_ms, 4000) if quantified else (min(timeout_ms, 2500) if stringy else timeout_ms)
    s.set("timeout", first_budget)
    for c in ob.pc:
        s.add(c)
    s.add(z3.Not(ob.goal))
    r = s.check()
    ob.solver = "z3"
    if r == z3.unsat:
        ob.status = "proved"
    elif r == z3.sat:
        ob.status = "failed"
        ob.model = s.model()
    else:
        ob.status = "unknown"
        ob.reason = s.reason_unknown()
        if use_cvc5 and not quantified:
            r2 = run_cvc5(s.to_smt2(), timeout_ms)
            if r2 == "unsat":
                ob.status, ob.solver = "proved", "cvc5"
            elif r2 == "sat":
                ob.status, ob.solver = "failed", "cvc5"
        if ob.status == "unknown":
            try:
                fs, m = finite_scope(ob, timeout_ms)
            except z3.Z3Exception as e:
                fs, m = "unknown", None
            if fs == "proved":
                ob.status, ob.solver = "proved", "z3-ground-instances"
            elif fs == "candidate":
                ob.status, ob.solver, ob.model = "candidate", "z3-finite-scope", m
    ob.time_s = time.time() - t0
    return ob


def _has_quant(e):
    todo, seen = [e], set()
    while todo:
        x = todo.pop()
        if x.get_id() in seen:
            continue
        seen.add(x.get_id())
        if z3.is_quantifier(x):
            return True
        todo.extend(x.children())
    return False


def run_cvc5(smt2, timeout_ms, extra=()):
    fd, path = tempfile.mkstemp(suffix=".smt2", dir=os.environ.get("VERIF_SCRATCH", None))
    try:
        with os.fdopen(fd, "w") as f:
            f.write("(set-logic ALL)\n" + smt2)
        try:
            p = subprocess.run(["/usr/bin/cvc5", "--strings-exp", f"--tlimit={timeout_ms}", *extra, path],
                               capture_output=True, text=True, timeout=timeout_ms / 1000 + 5)
        except subprocess.TimeoutExpired:
            return "unknown"
        out = p.stdout.strip().splitlines()
        return out[0] if out and out[0] in ("sat", "unsat") else "unknown"
    finally:
        os.unlink(path)


def model_value(model, expr):
    v = model.eval(expr, model_completion=True)
    if z3.is_int_value(v):
        return v.as_long()
    if z3.is_true(v):
        return True
    if z3.is_false(v):
        return False
    if z3.is_string_value(v):
        return v.as_string()
    return str(v)


# ---------------------------------------------------------------------------------------------------
# Finite-scope / ground instantiation: used when a quantified query ends `unknown`.
# Assumption quantifiers are replaced by their instances over the ground terms of the query (a weaker assumption set):
#   unsat  => the obligation is proved (sound);  sat => a *candidate* counterexample (to be replayed / confirmed).
# ---------------------------------------------------------------------------------------------------
def _ground_terms(exprs):
    ints, strs = {}, {}
    seen = set()
    todo = list(exprs)
    while todo:
        e = todo.pop()
        if e.get_id() in seen:
            continue
        seen.add(e.get_id())
        if z3.is_quantifier(e):
            continue      # bodies contain bound variables: skipped
        if z3.is_app(e):
            srt = e.sort()
            if srt == z3.IntSort() and (z3.is_const(e) or e.decl().kind() == z3.Z3_OP_SELECT):
                if not z3.is_int_value(e):
                    ints[e.get_id()] = e
            elif srt == z3.StringSort() and (z3.is_const(e) or z3.is_string_value(e)):
                strs[e.get_id()] = e
            todo.extend(e.children())
    return list(ints.values()), list(strs.values())


def _instantiate(e, ints, strs, limit=4000):
    """Replace every universally quantified sub-formula in positive position at the top conjunction level."""
    if z3.is_quantifier(e) and e.is_forall():
        doms = []
        for k in range(e.num_vars()):
            srt = e.var_sort(k)
            if srt == z3.IntSort():
                doms.append(ints + [z3.IntVal(0)])
            elif srt == z3.StringSort():
                doms.append(strs or [z3.StringVal("")])
            else:
                return z3.BoolVal(True)    # unsupported sort: drop the assumption (weaker)
        import itertools
        n = 1
        for d in doms:
            n *= len(d)
        if n > limit:
            return z3.BoolVal(True)
        out = []
        # de Bruijn: variable 0 is the LAST bound variable
        for combo in itertools.product(*doms):
            out.append(z3.substitute_vars(e.body(), *reversed(combo)))
        return z3.And(out) if out else z3.BoolVal(True)
    if z3.is_and(e):
        return z3.And([_instantiate(c, ints, strs, limit) for c in e.children()])
    return e


def finite_scope(ob, timeout_ms=10000, rounds=2):
    """-> ('proved'|'candidate'|'unknown', model|None)"""
    goal_neg = z3.Not(ob.goal)
    pcs = list(ob.pc)
    ints, strs = _ground_terms(pcs + [goal_neg])
    # skolemise the negated goal first so that its witnesses join the term universe
    g = z3.Goal()
    g.add(goal_neg)
    try:
        sk = z3.Then("nnf", "simplify")(g)
        goal_parts = [f for sub in sk for f in sub]
    except z3.Z3Exception:
        goal_parts = [goal_neg]
    i2, s2 = _ground_terms(goal_parts)
    ids = {e.get_id() for e in ints}
    ints += [e for e in i2 if e.get_id() not in ids]
    ids = {e.get_id() for e in strs}
    strs += [e for e in s2 if e.get_id() not in ids]
    inst = []
    for _ in range(rounds):
        inst = [_instantiate(c, ints, strs) for c in pcs]
        more_i, more_s = _ground_terms(inst)
        ids = {e.get_id() for e in ints}
        new = [e for e in more_i if e.get_id() not in ids]
        if not new or len(ints) > 24:
            break
        ints += new[: max(0, 24 - len(ints))]
    s = z3.Solver()
    s.set("timeout", timeout_ms)
    for c in inst:
        s.add(c)
    for c in goal_parts:
        s.add(c)
    r = s.check()
    if r == z3.unsat:
        return "proved", None
    if r == z3.sat:
        return "candidate", s.model()
    return "unknown", None
