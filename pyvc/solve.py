"""Discharging obligations: z3 first, cvc5 (binary) for what z3 leaves unknown."""
import os
import subprocess
import tempfile
import time
import z3


def solve_one(ob, timeout_ms=10000, use_cvc5=True):
    """Sets ob.status in {proved, failed, unknown}, ob.model (z3 model or None), ob.solver, ob.time_s."""
    t0 = time.time()
    g = z3.simplify(ob.goal)
    if z3.is_true(g):
        ob.status, ob.solver, ob.time_s = "proved", "simplifier", 0.0
        return ob
    s = z3.Solver()
    s.set("timeout", timeout_ms)
    for c in ob.pc:
        s.add(c)
    s.add(z3.Not(ob.goal))
    r = s.check()
    ob.solver = "z3"
    if r == z3.unsat:
        ob.status = "proved"
    elif r == z3.sat:
        ob.status = "failed"
        ob.model = s.model()
    else:
        ob.status = "unknown"
        ob.reason = s.reason_unknown()
        if use_cvc5:
            r2 = run_cvc5(s.to_smt2(), timeout_ms)
            if r2 == "unsat":
                ob.status, ob.solver = "proved", "cvc5"
            elif r2 == "sat":
                ob.status, ob.solver = "failed", "cvc5"
    ob.time_s = time.time() - t0
    return ob


def run_cvc5(smt2, timeout_ms, extra=()):
    fd, path = tempfile.mkstemp(suffix=".smt2", dir=os.environ.get("VERIF_SCRATCH", None))
    try:
        with os.fdopen(fd, "w") as f:
            f.write("(set-logic ALL)\n" + smt2)
        try:
            p = subprocess.run(["/usr/bin/cvc5", "--strings-exp", f"--tlimit={timeout_ms}", *extra, path],
                               capture_output=True, text=True, timeout=timeout_ms / 1000 + 5)
        except subprocess.TimeoutExpired:
            return "unknown"
        out = p.stdout.strip().splitlines()
        return out[0] if out and out[0] in ("sat", "unsat") else "unknown"
    finally:
        os.unlink(path)


def model_value(model, expr):
    v = model.eval(expr, model_completion=True)
    if z3.is_int_value(v):
        return v.as_long()
    if z3.is_true(v):
        return True
    if z3.is_false(v):
        return False
    if z3.is_string_value(v):
        return v.as_string()
    return str(v)
