"""Expression evaluation for the pyvc executor (mixed into Engine)."""
import ast
import enum
import inspect
import operator
import types
import typing
import z3

from .values import *
from .state import *
from . import loader
from .engine import SEnum, SuperProxy, SymView, PRefKey, _BINOPS, _CMPOPS

MISSING = object()


def is_sym(v):
    return isinstance(v, (Sym, SLoc, SSlice, Opaque, PRefKey, SymView))


class ExprMixin:
    # ------------------------------------------------------------------ drivers
    def ev(self, node, st):
        """-> list of (state, value); value may be Exc (raised)."""
        m = getattr(self, "ex_" + type(node).__name__, None)
        if m is None:
            raise Unsupported(f"expression {type(node).__name__}", node)
        return m(node, st)

    def ev_many(self, nodes, st):
        """Left-to-right evaluation. -> list of (state, [values] | Exc)"""
        cur = [(st, [])]
        out = []
        for n in nodes:
            nxt = []
            for s, acc in cur:
                for s2, v in self.ev(n, s):
                    if isinstance(v, Exc):
                        out.append((s2, v))
                    else:
                        nxt.append((s2, acc + [v]))
            cur = nxt
        return out + cur

    def ev_concrete(self, node, st):
        r = self.ev(node, st)
        if len(r) != 1 or is_sym(r[0][1]) or isinstance(r[0][1], Exc):
            raise Unsupported("expected a concrete value", node)
        return r[0][1]

    # ------------------------------------------------------------------ atoms
    def ex_Constant(self, node, st):
        return [(st, node.value)]

    def ex_Name(self, node, st):
        if node.id in st.locals:
            return [(st, st.locals[node.id])]
        g = self.frames[-1].ext.globals
        if node.id in g:
            return [(st, g[node.id])]
        import builtins
        if hasattr(builtins, node.id):
            return [(st, getattr(builtins, node.id))]
        # Unbound name: NameError / UnboundLocalError at run time
        return [(st, Exc(NameError, node.id))]

    def ex_JoinedStr(self, node, st):
        # f-string: pieces are evaluated (a failing sub-expression such as an unbound name is real behaviour and is
        # kept); formatting an object calls __repr__/__str__ whose text is opaque.
        cur = [(st, [])]
        raised = []
        for v in node.values:
            if isinstance(v, ast.Constant):
                cur = [(s, acc + [v.value]) for s, acc in cur]
                continue
            nxt = []
            for s, acc in cur:
                if v.conversion != -1 or v.format_spec is not None:
                    nxt.append((s, acc + [Opaque("fmt")]))
                    continue
                try:
                    rs = self.ev(v.value, s.fork())
                except Unsupported:
                    nxt.append((s, acc + [Opaque("fmt")]))
                    continue
                for s2, x in rs:
                    if isinstance(x, Exc):
                        raised.append((s2, x))
                    else:
                        nxt.append((s2, acc + [x]))
            cur = nxt
        out = list(raised)
        def as_text(x):
            if isinstance(x, bool):
                return str(x)
            if isinstance(x, int):
                return str(x)
            if isinstance(x, SInt):
                return SStr(z3.If(x.z >= 0, z3.IntToStr(x.z), z3.Concat(z3.StringVal("-"), z3.IntToStr(-x.z))))
            return x
        cur = [(s, [as_text(x) for x in acc]) for s, acc in cur]
        for s, acc in cur:
            if all(isinstance(x, (str, SStr)) for x in acc):
                r = ""
                for x in acc:
                    r = r + x
                out.append((s, r))
            else:
                out.append((s, Opaque("f-string")))
        return out

    def ex_Tuple(self, node, st):
        if any(isinstance(e, ast.Starred) for e in node.elts):
            raise Unsupported("starred in tuple", node)
        return [(s, v if isinstance(v, Exc) else tuple(v)) for s, v in self.ev_many(node.elts, st)]

    def ex_List(self, node, st):
        if any(isinstance(e, ast.Starred) for e in node.elts):
            raise Unsupported("starred in list", node)
        return [(s, v if isinstance(v, Exc) else list(v)) for s, v in self.ev_many(node.elts, st)]

    def ex_Dict(self, node, st):
        if len(node.keys) == 0:
            return [(st, {})]
        out = []
        for s, vals in self.ev_many(list(node.keys) + list(node.values), st):
            if isinstance(vals, Exc):
                out.append((s, vals))
                continue
            n = len(node.keys)
            ks, vs = vals[:n], vals[n:]
            if any(is_sym(k) for k in ks):
                raise Unsupported("dict literal with symbolic keys", node)
            out.append((s, dict(zip(ks, vs))))
        return out

    def ex_Set(self, node, st):
        raise Unsupported("set literal", node)

    def ex_Lambda(self, node, st):
        return [(st, Opaque("lambda"))]

    def ex_Slice(self, node, st):
        parts = [node.lower, node.upper, node.step]
        nodes = [p for p in parts if p is not None]
        out = []
        for s, vals in self.ev_many(nodes, st):
            if isinstance(vals, Exc):
                out.append((s, vals))
                continue
            it = iter(vals)
            trip = [next(it) if p is not None else None for p in parts]
            if all(not is_sym(t) for t in trip):
                out.append((s, slice(*trip)))
            else:
                out.append((s, SSlice(*trip)))
        return out

    # ------------------------------------------------------------------ operators
    def ex_UnaryOp(self, node, st):
        out = []
        for s, v in self.ev(node.operand, st):
            if isinstance(v, Exc):
                out.append((s, v))
            elif isinstance(node.op, ast.Not):
                t = self.truth(s, v)
                out.append((s, (not t) if isinstance(t, bool) else SBool(z3.Not(t))))
            elif isinstance(node.op, ast.USub):
                if isinstance(v, (Opaque,)):
                    raise Unsupported("negation of opaque", node)
                out.append((s, -v))
            elif isinstance(node.op, ast.UAdd):
                out.append((s, +v))
            else:
                raise Unsupported("unary op", node)
        return out

    def ex_BoolOp(self, node, st):
        is_and = isinstance(node.op, ast.And)
        results = []

        def rec(i, s):
            for s2, v in self.ev(node.values[i], s):
                if isinstance(v, Exc) or i == len(node.values) - 1:
                    results.append((s2, v))
                    continue
                for s3, b in self.branch(s2, self.truth(s2, v), f"boolop@{node.lineno}"):
                    if b == is_and:
                        rec(i + 1, s3)
                    else:
                        results.append((s3, v if not isinstance(v, (SBool,)) else (not is_and)))
        rec(0, st)
        return results

    def ex_IfExp(self, node, st):
        out = []
        for s, c in self.ev(node.test, st):
            if isinstance(c, Exc):
                out.append((s, c))
                continue
            for s2, b in self.branch(s, self.truth(s, c), f"ifexp@{node.lineno}"):
                out.extend(self.ev(node.body if b else node.orelse, s2))
        return out

    def ex_BinOp(self, node, st):
        out = []
        for s, vals in self.ev_many([node.left, node.right], st):
            if isinstance(vals, Exc):
                out.append((s, vals))
                continue
            out.extend(self.binop(s, node.op, vals[0], vals[1], node))
        return out

    def binop(self, st, op, a, b, node=None):
        opf = _BINOPS.get(type(op))
        if opf is None:
            raise Unsupported(f"operator {type(op).__name__}", node)
        if isinstance(a, Opaque) or isinstance(b, Opaque):
            return [(st, Opaque("binop"))]
        numeric = (int, SInt, SBool)
        if isinstance(op, (ast.FloorDiv, ast.Mod)) and isinstance(a, numeric) and isinstance(b, numeric):
            if isinstance(a, (int,)) and isinstance(b, (int,)):
                if b == 0:
                    return [(st, Exc(ZeroDivisionError))]
                return [(st, opf(a, b))]
            out = []
            for s2, z in self.branch(st, zint(b) == 0, "div by zero"):
                if z:
                    out.append((s2, Exc(ZeroDivisionError)))
                else:
                    out.append((s2, opf(a if isinstance(a, Sym) else SInt(zint(a)), b)))
            return out
        if isinstance(op, ast.Pow):
            if not is_sym(a) and not is_sym(b):
                try:
                    return [(st, a ** b)]
                except ZeroDivisionError:
                    return [(st, Exc(ZeroDivisionError))]
            raise Unsupported("symbolic power", node)
        if isinstance(op, ast.Div):
            if isinstance(a, SReal) and not is_sym(b):
                r = a.__truediv__(b)
                if r is NotImplemented:
                    return [(st, Exc(ZeroDivisionError))] if b == 0 else self._unsup_div(node)
                return [(st, r)]
            if not is_sym(a) and not is_sym(b):
                try:
                    return [(st, a / b)]
                except ZeroDivisionError:
                    return [(st, Exc(ZeroDivisionError))]
            raise Unsupported("symbolic true division", node)
        # None / type errors
        if a is None or b is None:
            return [(st, Exc(TypeError, "NoneType operand"))]
        if isinstance(a, (str, SStr)) != isinstance(b, (str, SStr)) and isinstance(op, ast.Add):
            return [(st, Exc(TypeError, "str + non-str"))]
        try:
            r = opf(a, b)
        except TypeError as e:
            if is_sym(a) or is_sym(b):
                raise Unsupported(f"binop on {a!r},{b!r}", node)
            return [(st, Exc(TypeError, str(e)))]
        if r is NotImplemented:
            raise Unsupported(f"binop on {a!r},{b!r}", node)
        return [(st, r)]

    def _unsup_div(self, node):
        raise Unsupported("true division by this operand", node)

    def ex_Compare(self, node, st):
        out = []
        for s, vals in self.ev_many([node.left] + list(node.comparators), st):
            if isinstance(vals, Exc):
                out.append((s, vals))
                continue
            # chained comparison: conjunction (sub-expressions here have no side effects once evaluated)
            conj = []
            states = [(s, [])]
            for i, op in enumerate(node.ops):
                nxt = []
                for s2, acc in states:
                    for s3, r in self.compare(s2, op, vals[i], vals[i + 1], node):
                        if isinstance(r, Exc):
                            out.append((s3, r))
                        else:
                            nxt.append((s3, acc + [r]))
                states = nxt
            for s2, acc in states:
                if len(acc) == 1:
                    out.append((s2, acc[0]))
                elif all(isinstance(x, bool) for x in acc):
                    out.append((s2, all(acc)))
                else:
                    out.append((s2, SBool(z3.And([zbool(x) for x in acc]))))
        return out

    def compare(self, st, op, a, b, node=None):
        """-> list of (state, bool | SBool | Exc)"""
        if isinstance(op, (ast.Is, ast.IsNot)):
            r = self.identical(st, a, b)
            if isinstance(op, ast.IsNot):
                r = (not r) if isinstance(r, bool) else SBool(z3.Not(zbool(r)))
            return [(st, r)]
        if isinstance(op, (ast.Eq, ast.NotEq)):
            res = []
            for s2, r in self.equal(st, a, b, node):
                if isinstance(op, ast.NotEq) and not isinstance(r, Exc):
                    r = (not r) if isinstance(r, bool) else SBool(z3.Not(zbool(r)))
                res.append((s2, r))
            return res
        if isinstance(op, (ast.In, ast.NotIn)):
            res = []
            for s2, r in self.contains(st, b, a, node):
                if isinstance(op, ast.NotIn) and not isinstance(r, Exc):
                    r = (not r) if isinstance(r, bool) else SBool(z3.Not(zbool(r)))
                res.append((s2, r))
            return res
        f = _CMPOPS[type(op)]
        if a is None or b is None:
            return [(st, Exc(TypeError, "ordering with None"))]
        if isinstance(a, (Opaque,)) or isinstance(b, Opaque):
            raise Unsupported("ordering of opaque values", node)
        if isinstance(a, (SRef, SLoc)) or isinstance(b, (SRef, SLoc)):
            raise Unsupported("ordering of objects", node)
        if isinstance(a, (str, SStr)) != isinstance(b, (str, SStr)):
            return [(st, Exc(TypeError, "ordering str with non-str"))]
        try:
            r = f(a, b)
        except TypeError as e:
            if is_sym(a) or is_sym(b):
                raise Unsupported(f"compare {a!r} {b!r}", node)
            return [(st, Exc(TypeError, str(e)))]
        return [(st, r)]

    def identical(self, st, a, b):
        if isinstance(a, SLoc) and isinstance(b, SLoc):
            if a.field != b.field:
                return False
            return SBool(a.owner == b.owner)
        if isinstance(a, SLoc) or isinstance(b, SLoc):
            return False
        if isinstance(a, SRef) and isinstance(b, SRef):
            return SBool(a.z == b.z)
        if isinstance(a, SRef) or isinstance(b, SRef):
            other = b if isinstance(a, SRef) else a
            ref = a if isinstance(a, SRef) else b
            if other is None:
                return False      # SRef values are never NULL (read_field forks on NULL)
            return False
        if isinstance(a, SEnum) or isinstance(b, SEnum):
            r = a == b
            return r
        if isinstance(a, SBool) or isinstance(b, SBool):
            if isinstance(a, (bool, SBool)) and isinstance(b, (bool, SBool)):
                return SBool(zbool(a) == zbool(b))
            return False
        if isinstance(a, (SInt, SStr)) or isinstance(b, (SInt, SStr)):
            if a is None or b is None:
                return False
            raise Unsupported("`is` on symbolic int/str")
        if isinstance(a, Opaque) or isinstance(b, Opaque):
            raise Unsupported("`is` on opaque value")
        return a is b

    def equal(self, st, a, b, node=None):
        if isinstance(a, Opaque) or isinstance(b, Opaque):
            raise Unsupported("== on opaque value", node)
        if isinstance(a, SRef) or isinstance(b, SRef):
            if not (isinstance(a, SRef) and isinstance(b, SRef)):
                ref = a if isinstance(a, SRef) else b
                # object vs None / number / string: classes here define __eq__ as identity or NotImplemented
                return [(st, False)]
            # both refs: identity unless a class overrides __eq__ structurally (PortRef)
            from hdl21.portref import PortRef
            ca, cb = self.classes_of(st, a), self.classes_of(st, b)
            if all(issubclass(c, PortRef) for c in ca) and all(issubclass(c, PortRef) for c in cb):
                same_inst = st.heap.get("inst", a.z) == st.heap.get("inst", b.z)
                same_name = st.heap.get("portname", a.z) == st.heap.get("portname", b.z)
                return [(st, SBool(z3.And(same_inst, same_name)))]
            for c in tuple(ca) + tuple(cb):
                eqf = None
                for k in c.__mro__:
                    if "__eq__" in k.__dict__:
                        eqf = k.__dict__["__eq__"]
                        break
                if eqf is not None and eqf is not object.__eq__:
                    if not self.is_identity_eq(eqf):
                        raise Unsupported(f"== on {c.__name__} with structural __eq__", node)
            return [(st, SBool(a.z == b.z))]
        if isinstance(a, PRefKey) or isinstance(b, PRefKey):
            raise Unsupported("== on PortRef key", node)
        if isinstance(a, SEnum) or isinstance(b, SEnum):
            return [(st, a == b if isinstance(a, SEnum) else b == a)]
        if isinstance(a, Sym) or isinstance(b, Sym):
            r = (a == b) if isinstance(a, Sym) else (b == a)
            if r is NotImplemented:
                return [(st, False)]
            return [(st, r)]
        if isinstance(a, SSlice) or isinstance(b, SSlice):
            raise Unsupported("== on slices", node)
        if isinstance(a, (tuple, list)) and isinstance(b, (tuple, list)) and type(a) is type(b) and \
                (any(is_sym(x) for x in a) or any(is_sym(x) for x in b)):
            if len(a) != len(b):
                return [(st, False)]
            conj = []
            for x, y in zip(a, b):
                rs = self.equal(st, x, y, node)
                if len(rs) != 1:
                    raise Unsupported("forking == in tuple", node)
                conj.append(rs[0][1])
            if all(isinstance(c, bool) for c in conj):
                return [(st, all(conj))]
            return [(st, SBool(z3.And([zbool(c) for c in conj])))]
        return [(st, a == b)]

    def is_identity_eq(self, f):
        """True if the __eq__ method's body is `return other is self` (checked on the real source)."""
        try:
            ext = loader.extract_func(f)
        except LookupError:
            return False
        body = [n for n in ext.node.body if not (isinstance(n, ast.Expr) and isinstance(n.value, ast.Constant))]
        if len(body) == 1 and isinstance(body[0], ast.Return) and isinstance(body[0].value, ast.Compare):
            c = body[0].value
            if len(c.ops) == 1 and isinstance(c.ops[0], ast.Is):
                names = {getattr(c.left, "id", None), getattr(c.comparators[0], "id", None)}
                argn = {a.arg for a in ext.node.args.args}
                return names == argn
        return False

    def contains(self, st, container, item, node=None):
        if isinstance(container, SymView):
            if container.what in ("iter", "keys"):
                container = container.loc
            else:
                raise Unsupported("`in` on values()/items() view", node)
        if isinstance(container, SLoc):
            c = st.heap.get(container.field, container.owner)
            if container.kind == "map[str,ref]":
                if not isinstance(item, (str, SStr)):
                    return [(st, False)]
                return [(st, SBool(z3.Select(c, zstr(item)) != NULL))]
            if container.kind == "set[ref]":
                if not isinstance(item, SRef):
                    return [(st, False)]
                return [(st, SBool(z3.Select(c, item.z)))]
            if container.kind == "set[key]":
                return [(st, SBool(z3.Select(c, self.elem_key(st, item))))]
            if container.kind == "map[key,ref]":
                return [(st, SBool(z3.Select(c, self.elem_key(st, item)) != NULL))]
            if container.kind == "set[pref]":
                i, p = self.pref_key(st, item)
                return [(st, SBool(z3.Select(c, i, p)))]
            if container.kind == "seq[ref]":
                if not isinstance(item, SRef):
                    return [(st, False)]
                return [(st, SBool(z3.Contains(c, z3.Unit(item.z))))]
            if container.kind == "seq[str]":
                return [(st, SBool(z3.Contains(c, z3.Unit(zstr(item)))))]
            raise Unsupported(f"`in` on {container.kind}", node)
        if isinstance(container, (list, tuple, set, frozenset, dict)):
            if not is_sym(item) and not any(is_sym(x) for x in container):
                try:
                    return [(st, item in container)]
                except TypeError:
                    return [(st, Exc(TypeError, "unhashable"))]
            disj = []
            for x in container:
                rs = self.equal(st, item, x, node)
                if len(rs) != 1:
                    raise Unsupported("forking == in membership", node)
                disj.append(rs[0][1])
            if all(isinstance(d, bool) for d in disj):
                return [(st, any(disj))]
            return [(st, SBool(z3.Or([zbool(d) for d in disj])))]
        if isinstance(container, (str, SStr)):
            if isinstance(item, (str, SStr)):
                if isinstance(container, str) and isinstance(item, str):
                    return [(st, item in container)]
                return [(st, SBool(z3.Contains(zstr(container), zstr(item))))]
            return [(st, Exc(TypeError, "in <string> requires string"))]
        if isinstance(container, Opaque):
            raise Unsupported("`in` on opaque", node)
        if container is None:
            return [(st, Exc(TypeError, "argument of type NoneType is not iterable"))]
        if not is_sym(item):
            try:
                return [(st, item in container)]
            except TypeError as e:
                return [(st, Exc(TypeError, str(e)))]
        raise Unsupported(f"`in` on {container!r}", node)

    def pref_key(self, st, item):
        if isinstance(item, PRefKey):
            return item.inst, item.portname
        if isinstance(item, SRef):
            return st.heap.get("inst", item.z), st.heap.get("portname", item.z)
        raise Unsupported(f"PortRef key of {item!r}")

    # ------------------------------------------------------------------ attribute access
    def ex_Attribute(self, node, st):
        out = []
        for s, obj in self.ev(node.value, st):
            if isinstance(obj, Exc):
                out.append((s, obj))
            else:
                out.extend(self.getattr_(s, obj, node.attr, node))
        return out

    def record_field(self, cls, attr):
        if not self.is_record_class(cls):
            return None
        return getattr(getattr(cls, "DESCRIPTOR", None), "fields_by_name", {}).get(attr)

    def getattr_(self, st, obj, attr, node=None, default=MISSING, raw=False):
        """Full Python attribute lookup. raw=True: object.__getattribute__ semantics (no __getattr__ hook)."""
        if isinstance(obj, SRef) and isinstance(attr, str) and attr == "__dict__":
            return [(st, ObjDict(obj))]
        if isinstance(obj, ObjDict):
            if attr == "get":
                return [(st, BoundMethod(("objdict", "get"), obj))]
            raise Unsupported(f"__dict__.{attr}", node)
        if isinstance(obj, SRef):
            return self.getattr_ref(st, obj, attr, node, default, raw)
        if isinstance(obj, RecRepeated):
            if attr in ("append", "extend"):
                return [(st, BoundMethod(("recrep", attr), obj))]
            raise Unsupported(f"attribute {attr} of a repeated protobuf field", node)
        if isinstance(obj, RecSlot):
            if attr == "CopyFrom":
                return [(st, BoundMethod(("recslot", "CopyFrom"), obj))]
            raise Unsupported(f"attribute {attr} of an unset protobuf sub-message", node)
        if isinstance(obj, SSlice):
            if attr in ("start", "stop", "step"):
                return [(st, getattr(obj, attr))]
            if attr == "indices":
                return [(st, BoundMethod(("slice", "indices"), obj))]
            raise Unsupported(f"slice.{attr}", node)
        if isinstance(obj, SEnum):
            if attr == "value":
                vals = [m.value for m in obj.members()]
                if all(isinstance(v, str) for v in vals):
                    r = z3.StringVal(vals[-1])
                    for i in range(len(vals) - 2, -1, -1):
                        r = z3.If(obj.z == i, z3.StringVal(vals[i]), r)
                    return [(st, SStr(r))]
                if all(isinstance(v, int) for v in vals):
                    r = z3.IntVal(vals[-1])
                    for i in range(len(vals) - 2, -1, -1):
                        r = z3.If(obj.z == i, z3.IntVal(vals[i]), r)
                    return [(st, SInt(r))]
                raise Unsupported("enum .value of mixed types", node)
            f = inspect.getattr_static(obj.cls, attr, MISSING)
            if isinstance(f, types.FunctionType):
                return [(st, BoundMethod(f, obj))]
            if isinstance(f, property):
                return self.call_function(st, f.fget, [obj], {}, node)
            raise Unsupported(f"enum attribute {attr}", node)
        if isinstance(obj, SLoc):
            return [(st, BoundMethod(("container", attr), obj))]
        if isinstance(obj, SymView):
            raise Unsupported(f"attribute {attr} of a dict view", node)
        if isinstance(obj, SStr):
            return [(st, BoundMethod(("str", attr), obj))]
        if isinstance(obj, SInt):
            raise Unsupported(f"int.{attr}", node)
        if isinstance(obj, PRefKey):
            if attr == "inst":
                return [(st, SRef(obj.inst, self.ref_field_classes("inst")))]
            if attr == "portname":
                return [(st, SStr(obj.portname))]
            raise Unsupported(f"PortRef(key).{attr}", node)
        if isinstance(obj, Opaque):
            return [(st, Opaque(f"{obj.why}.{attr}"))]      # unknown object: unknown attribute
        if isinstance(obj, SuperProxy):
            # super().meth -> next in MRO after obj.cls
            ref = obj.obj
            for c in self.classes_of(st, ref) if isinstance(ref, SRef) else [type(ref)]:
                mro = c.__mro__
                idx = mro.index(obj.cls)
                for k in mro[idx + 1:]:
                    if attr in k.__dict__:
                        f = k.__dict__[attr]
                        if k is object:
                            return [(st, BoundMethod(("object", attr), ref))]
                        return [(st, BoundMethod(loader.unwrap(f), ref))]
            raise Unsupported(f"super().{attr}", node)
        if obj is None:
            if default is not MISSING:
                return [(st, default)]
            return [(st, Exc(AttributeError, f"NoneType.{attr}"))]
        if isinstance(obj, (dict, list, tuple, set, str)) and not inspect.isclass(obj):
            if isinstance(obj, str) or not any(is_sym(x) for x in (obj.values() if isinstance(obj, dict) else obj)):
                if hasattr(obj, attr):
                    return [(st, BoundMethod(("py", attr), obj))]
            else:
                return [(st, BoundMethod(("py", attr), obj))]
        if isinstance(obj, Sym):
            # a symbolic primitive (int / bool / str / exact real): its methods are not modelled.  Falling through to
            # getattr() on the wrapper would turn every such call into a bogus AttributeError path.
            raise Unsupported(f"method or attribute `{attr}` of a symbolic {type(obj).__name__[1:].lower()} value", node)
        # concrete python object (module, class, enum member, function, ...)
        try:
            if (obj, attr) in self.class_attrs:
                return [(st, self.class_attrs[(obj, attr)](self, st, obj))]
        except TypeError:
            pass
        try:
            return [(st, getattr(obj, attr))]
        except AttributeError:
            if default is not MISSING:
                return [(st, default)]
            return [(st, Exc(AttributeError, f"{type(obj).__name__}.{attr}"))]

    def class_lookup(self, cls, attr):
        """Static lookup along the MRO -> ('method', f) | ('property', f) | ('value', v) | ('field',) |
        ('getattr', f) | ('missing',)"""
        override = self.class_attrs.get((cls, attr))
        if override is None:
            for k in cls.__mro__:
                if (k, attr) in self.class_attrs:
                    override = self.class_attrs[(k, attr)]
                    break
        if override is not None:
            return ("override", override)
        if self.is_record_class(cls) and attr in getattr(getattr(cls, "DESCRIPTOR", None), "fields_by_name", {}):
            return ("field",)          # protobuf message field
        f = inspect.getattr_static(cls, attr, MISSING)
        if f is not MISSING:
            # pydantic / dataclass fields show up as class attributes holding the default: instance field wins
            if attr in self.instance_fields(cls) and not isinstance(f, (property, types.FunctionType,
                                                                      classmethod, staticmethod)):
                return ("field",)
            if isinstance(f, property):
                return ("property", f.fget)
            if isinstance(f, types.FunctionType):
                return ("method", f)
            if isinstance(f, classmethod):
                return ("classmethod", f.__func__)
            if isinstance(f, staticmethod):
                return ("value", f.__func__)
            if isinstance(f, (types.WrapperDescriptorType, types.MethodDescriptorType, types.BuiltinFunctionType,
                              types.MethodWrapperType)) or type(f).__name__ in ("wrapper_descriptor",
                                                                             "method_descriptor"):
                return ("objmethod", attr)
            if isinstance(f, types.MemberDescriptorType) or type(f).__name__ == "getset_descriptor":
                return ("field",)
            return ("value", f)
        if attr in self.instance_fields(cls):
            return ("field",)
        for k in cls.__mro__:
            if "__getattr__" in k.__dict__:
                return ("getattr", k.__dict__["__getattr__"])
        return ("missing",)

    def getattr_ref(self, st, ref, attr, node, default, raw):
        out = []

        def keyfn(c):
            r = self.class_lookup(c, attr)
            return (r[0], id(r[1]) if len(r) > 1 else 0)
        for s, classes, _ in self.split_classes(st, ref, keyfn, f".{attr}"):
            r = self.class_lookup(classes[0], attr)
            kind = r[0]
            if kind == "override":
                out.append((s, r[1](self, s, ref)))
            elif kind == "field":
                got = self.read_field(s, ref, attr)
                fd = self.record_field(classes[0], attr)
                if fd is not None and fd.message_type is not None and fd.label != fd.LABEL_REPEATED:
                    got = [(s2, RecSlot(ref, attr) if v is None else v) for s2, v in got]
                if fd is not None and fd.label == fd.LABEL_REPEATED:
                    got = [(s2, RecRepeated(ref, attr) if isinstance(v, tuple) else v) for s2, v in got]
                out.extend(got)
            elif kind == "property":
                # property getters of repo classes are executed (inlined) unless a contract abstracts them: treating a
                # one-line getter as an unknown call would havoc the heap and lose the proof for no reason
                fget = loader.unwrap(r[1])
                if loader.func_key(fget) not in self.contracts and self.in_repo(fget) and \
                        len(self.frames) <= self.max_inline_depth:
                    out.extend(self.call_function_inline(s, fget, [ref], {}, node))
                else:
                    out.extend(self.call_function(s, r[1], [ref], {}, node))
            elif kind == "method":
                out.append((s, BoundMethod(r[1], ref)))
            elif kind == "classmethod":
                out.append((s, BoundMethod(r[1], classes[0])))
            elif kind == "objmethod":
                out.append((s, BoundMethod(("object", attr), ref)))
            elif kind == "value":
                out.append((s, r[1]))
            elif kind == "getattr" and not raw:
                for s2, v in self.call_function(s, r[1], [ref, attr], {}, node):
                    if default is not MISSING and isinstance(v, Exc) and v.cls is AttributeError:
                        v = default     # getattr(obj, name, default) swallows AttributeError from __getattr__ too
                    out.append((s2, v))
            else:
                if default is not MISSING:
                    out.append((s, default))
                else:
                    out.append((s, Exc(AttributeError, f"{classes[0].__name__}.{attr}")))
        return out

    def setattr_(self, st, obj, attr, val, node=None, raw=False):
        """-> list of (state, None | Exc)"""
        if isinstance(obj, SRef):
            out = []

            def keyfn(c):
                for k in c.__mro__:
                    if "__setattr__" in k.__dict__ and k is not object:
                        return id(k.__dict__["__setattr__"])
                return 0
            for s, classes, _ in self.split_classes(st, obj, keyfn, f".{attr}="):
                hook = None
                if not raw:
                    for k in classes[0].__mro__:
                        if "__setattr__" in k.__dict__ and k is not object:
                            hook = k.__dict__["__setattr__"]
                            break
                if hook is not None and hasattr(hook, "__code__") and self.in_repo(hook):
                    for s2, r in self.call_function(s, hook, [obj, attr, val], {}, node):
                        out.append((s2, r if isinstance(r, Exc) else None))
                else:
                    # data descriptors (properties without setter) would raise; none of the classes use them
                    st_cls = inspect.getattr_static(classes[0], attr, MISSING)
                    if isinstance(st_cls, property) and st_cls.fset is None:
                        out.append((s, Exc(AttributeError, f"can't set {attr}")))
                    else:
                        self.write_field(s, obj, attr, val)
                        out.append((s, None))
            return out
        if isinstance(obj, Opaque):
            raise Unsupported(f"attribute store on opaque value ({obj.why})", node)
        if obj is None:
            return [(st, Exc(AttributeError, f"NoneType.{attr}="))]
        raise Unsupported(f"attribute store on {obj!r}", node)

    def in_repo(self, f):
        try:
            loader.extract_func(f)
            return True
        except LookupError:
            return False

    # ------------------------------------------------------------------ subscripts
    def ex_Subscript(self, node, st):
        out = []
        for s, vals in self.ev_many([node.value, node.slice], st):
            if isinstance(vals, Exc):
                out.append((s, vals))
            else:
                out.extend(self.getitem(s, vals[0], vals[1], node))
        return out

    def getitem(self, st, obj, key, node=None):
        if isinstance(obj, SLoc):
            c = st.heap.get(obj.field, obj.owner)
            if obj.kind == "map[str,ref]":
                if not isinstance(key, (str, SStr)):
                    return [(st, Exc(KeyError))]
                v = z3.Select(c, zstr(key))
                out = []
                for s2, b in self.branch(st, v == NULL, "KeyError"):
                    out.append((s2, Exc(KeyError)) if b else
                               (s2, SRef(v, self.ref_field_classes(obj.field + "[]"))))
                return out
            if obj.kind == "map[key,ref]":
                v = z3.Select(c, self.elem_key(st, key))
                out = []
                for s2, b in self.branch(st, v == NULL, "KeyError"):
                    out.append((s2, Exc(KeyError)) if b else
                               (s2, SRef(v, self.ref_field_classes(obj.field + "[]"))))
                return out
            if obj.kind in ("seq[ref]", "seq[str]"):
                i = zint(key)
                n = z3.Length(c)
                out = []
                for s2, b in self.branch(st, z3.And(i >= -n, i < n), "IndexError"):
                    if not b:
                        out.append((s2, Exc(IndexError)))
                    else:
                        idx = z3.If(i < 0, i + n, i)
                        e = c[idx]
                        out.append((s2, SRef(e, self.ref_field_classes(obj.field + "[]"))
                                    if obj.kind == "seq[ref]" else SStr(e)))
                return out
            raise Unsupported(f"subscript of {obj.kind}", node)
        if isinstance(obj, SRef):
            for c in self.classes_of(st, obj):
                gi = inspect.getattr_static(c, "__getitem__", MISSING)
                if gi is MISSING:
                    return [(st, Exc(TypeError, f"{c.__name__} not subscriptable"))]
            gi = inspect.getattr_static(self.classes_of(st, obj)[0], "__getitem__")
            return self.call_function(st, gi, [obj, key], {}, node)
        if isinstance(obj, Opaque):
            raise Unsupported("subscript of opaque", node)
        if isinstance(obj, (list, tuple, str)) and not is_sym(key):
            try:
                return [(st, obj[key])]
            except IndexError:
                return [(st, Exc(IndexError))]
            except TypeError as e:
                return [(st, Exc(TypeError, str(e)))]
        if isinstance(obj, (list, tuple)) and isinstance(key, SInt):
            n = len(obj)
            out = []
            for k in range(-n, n):
                if self.feasible(st, key.z == k):
                    s2 = st.fork()
                    s2.assume(key.z == k)
                    out.append((s2, obj[k]))
            if self.feasible(st, z3.Or(key.z < -n, key.z >= n)):
                s2 = st.fork()
                s2.assume(z3.Or(key.z < -n, key.z >= n))
                out.append((s2, Exc(IndexError)))
            return out
        if isinstance(obj, dict):
            if not is_sym(key):
                try:
                    return [(st, obj[key])]
                except KeyError:
                    return [(st, Exc(KeyError))]
                except TypeError as e:
                    return [(st, Exc(TypeError, str(e)))]
            out = []
            rest = []
            for k, v in obj.items():
                rs = self.equal(st, key, k, node)
                c = rs[0][1]
                if c is False:
                    continue
                cz = zbool(c)
                if self.feasible(st, cz):
                    s2 = st.fork()
                    s2.assume(cz)
                    out.append((s2, v))
                rest.append(z3.Not(cz))
            if self.feasible(st, z3.And(rest) if rest else z3.BoolVal(True)):
                s2 = st.fork()
                s2.assume(z3.And(rest) if rest else z3.BoolVal(True))
                out.append((s2, Exc(KeyError)))
            return out
        # typing generics etc.
        if not is_sym(obj) and not is_sym(key):
            try:
                return [(st, obj[key])]
            except Exception as e:
                return [(st, Exc(type(e), str(e)))]
        raise Unsupported(f"subscript {obj!r}[{key!r}]", node)

    def setitem(self, st, obj, key, val, node=None):
        if isinstance(obj, SLoc):
            c = st.heap.get(obj.field, obj.owner)
            if obj.kind == "map[key,ref]":
                if not isinstance(val, SRef):
                    raise Unsupported(f"map store of {val!r}", node)
                st.heap.put(obj.field, obj.owner, z3.Store(c, self.elem_key(st, key), val.z))
                return [(st, None)]
            if obj.kind == "map[str,ref]":
                if not isinstance(key, (str, SStr)):
                    raise Unsupported(f"map store under non-string key {key!r}", node)
                if not isinstance(val, SRef):
                    raise Unsupported(f"map store of {val!r}", node)
                st.heap.put(obj.field, obj.owner, z3.Store(c, zstr(key), val.z))
                return [(st, None)]
            raise Unsupported(f"item store on {obj.kind}", node)
        if isinstance(obj, dict) and not is_sym(key):
            obj2 = obj   # local concrete dict: mutate a copy bound to every alias is not tracked -> in place
            obj2[key] = val
            return [(st, None)]
        raise Unsupported(f"item store on {obj!r}", node)

    # ------------------------------------------------------------------ comprehensions
    def ex_ListComp(self, node, st):
        return self._comp(node, st, list)

    def ex_GeneratorExp(self, node, st):
        return self._comp(node, st, list)

    def _comp(self, node, st, ctor):
        if len(node.generators) != 1:
            raise Unsupported("nested comprehension", node)
        g = node.generators[0]
        out = []
        for s, it in self.ev(g.iter, st):
            if isinstance(it, Exc):
                out.append((s, it))
                continue
            if not isinstance(it, (list, tuple, range, dict)):
                raise Unsupported(f"comprehension over {it!r}", node)
            states = [(s, [])]
            for x in list(it):
                nxt = []
                for s2, acc in states:
                    saved = dict(s2.locals)
                    for kind, s3, e in self.assign(g.target, s2, x):
                        if kind != "ok":
                            out.append((s3, e))
                            continue
                        conds = [(s3, True)]
                        for cnode in g.ifs:
                            c2 = []
                            for s4, ok in conds:
                                for s5, v in self.ev(cnode, s4):
                                    if isinstance(v, Exc):
                                        out.append((s5, v))
                                        continue
                                    for s6, b in self.branch(s5, self.truth(s5, v), "comp-if"):
                                        c2.append((s6, ok and b))
                            conds = c2
                        for s4, ok in conds:
                            if not ok:
                                nxt.append((s4, acc))
                                continue
                            for s5, v in self.ev(node.elt, s4):
                                if isinstance(v, Exc):
                                    out.append((s5, v))
                                else:
                                    nxt.append((s5, acc + [v]))
                states = nxt
            for s2, acc in states:
                out.append((s2, ctor(acc)))
        return out

    def ex_DictComp(self, node, st):
        raise Unsupported("dict comprehension", node)

    def ex_Starred(self, node, st):
        raise Unsupported("starred expression", node)
