"""Mechanical extraction of function ASTs from the /repo working tree (done on every run)."""
import ast
import hashlib
import importlib
import inspect
import os
import sys

REPO = os.environ.get("HDL21_REPO", "/repo")
_file_cache = {}


def ensure_paths():
    want = [REPO] + [os.path.join(REPO, "pdks", d) for d in ("Sky130", "Gf180", "Asap7")]
    for p in reversed(want):
        if p not in sys.path:
            sys.path.insert(0, p)


def parse_file(path):
    ent = _file_cache.get(path)
    if ent is None:
        src = open(path).read()
        ent = (src, ast.parse(src))
        _file_cache[path] = ent
    return ent


class Extracted:
    def __init__(self, key, obj, node, source, path, globs):
        self.key = key
        self.obj = obj
        self.node = node
        self.source = source
        self.path = path
        self.globals = globs
        self.sha = hashlib.sha256(source.encode()).hexdigest()[:16]
        self.lines = (node.lineno, node.end_lineno)


def resolve(key):
    """'pkg.mod:Qual.name' -> python object (unwrapping properties/classmethods/staticmethods)."""
    ensure_paths()
    modname, qual = key.split(":")
    mod = importlib.import_module(modname)
    obj = mod
    parts = qual.split(".")
    for i, p in enumerate(parts):
        if inspect.isclass(obj):
            obj = inspect.getattr_static(obj, p)
        else:
            obj = getattr(obj, p)
    return mod, obj


def unwrap(obj):
    if isinstance(obj, property):
        return obj.fget
    if isinstance(obj, (classmethod, staticmethod)):
        return obj.__func__
    return obj


def _find_def(tree, qual, lineno=None):
    parts = qual.split(".")

    def rec(body, parts):
        for n in body:
            if isinstance(n, (ast.FunctionDef, ast.ClassDef, ast.AsyncFunctionDef)) and n.name == parts[0]:
                if len(parts) == 1:
                    if isinstance(n, ast.FunctionDef):
                        return n
                else:
                    r = rec(n.body, parts[1:])
                    if r is not None:
                        return r
            # nested defs inside functions (decorator-installed methods such as sliceable.__getitem__)
            if isinstance(n, ast.FunctionDef) and len(parts) >= 1:
                r = rec(n.body, parts)
                if r is not None:
                    return r
            if isinstance(n, (ast.If, ast.Try)):
                for sub in (getattr(n, "body", []), getattr(n, "orelse", [])):
                    r = rec(sub, parts)
                    if r is not None:
                        return r
        return None

    return rec(tree.body, [p for p in parts if p != "<locals>"])


def extract(key):
    """Return Extracted for 'pkg.mod:Qual.name' – AST is parsed from the file under REPO."""
    mod, obj = resolve(key)
    fn = unwrap(obj)
    return extract_func(fn, key)


def extract_func(fn, key=None):
    fn = unwrap(fn)
    code = getattr(fn, "__code__", None)
    if code is None:
        raise LookupError(f"{fn!r} is not a Python function")
    path = os.path.realpath(code.co_filename)
    if not path.startswith(os.path.realpath(REPO) + os.sep):
        raise LookupError(f"{fn.__qualname__}: source {path} is not under {REPO}")
    src, tree = parse_file(path)
    node = None
    # locate by first line number: robust for decorated/nested functions
    for n in ast.walk(tree):
        if isinstance(n, ast.FunctionDef) and n.name == fn.__name__:
            first = min([n.lineno] + [d.lineno for d in n.decorator_list])
            if first == code.co_firstlineno or n.lineno == code.co_firstlineno:
                node = n
                break
    if node is None:
        node = _find_def(tree, fn.__qualname__)
    if node is None:
        raise LookupError(f"definition of {fn.__qualname__} not found in {path}")
    seg = ast.get_source_segment(src, node)
    key = key or f"{fn.__module__}:{fn.__qualname__}"
    return Extracted(key, fn, node, seg, path, fn.__globals__)


def func_key(fn):
    fn = unwrap(fn)
    return f"{fn.__module__}:{fn.__qualname__}"
