"""Execution state of the pyvc symbolic executor: locals, heap-of-field-arrays, path condition."""
import itertools
import z3
from .values import *

Ref = z3.IntSort()
_counter = itertools.count()


def fresh(prefix, sort):
    return z3.Const(f"{prefix}!{next(_counter)}", sort)


# ---------------------------------------------------------------------------------------------
# Field kinds.  A field is identified by its attribute name; one array Ref -> sort per field.
# ---------------------------------------------------------------------------------------------
def kind_sort(kind):
    if kind == "int":
        return z3.IntSort()
    if kind == "bool":
        return z3.BoolSort()
    if kind == "real":
        return z3.RealSort()
    if kind == "str":
        return z3.StringSort()
    if kind in ("ref", "enum", "py"):
        return z3.IntSort()
    if kind == "optint":
        return z3.IntSort()      # companion array <field>$none : Bool
    if kind == "optstr":
        return z3.StringSort()   # companion array <field>$none : Bool
    if kind == "map[str,ref]":
        return z3.ArraySort(z3.StringSort(), z3.IntSort())       # NULL == absent
    if kind in ("set[ref]", "set[key]"):
        return z3.ArraySort(z3.IntSort(), z3.BoolSort())
    if kind == "map[key,ref]":
        return z3.ArraySort(z3.IntSort(), z3.IntSort())
    if kind == "set[pref]":                                        # set of PortRef, keyed (inst, portname)
        return z3.ArraySort(z3.IntSort(), z3.StringSort(), z3.BoolSort())
    if kind == "seq[ref]":
        return z3.SeqSort(z3.IntSort())
    if kind == "seq[str]":
        return z3.SeqSort(z3.StringSort())
    if kind.startswith("opt") and kind[3:] in ("map[str,ref]", "set[ref]", "seq[ref]"):
        return kind_sort(kind[3:])
    raise KeyError(kind)


def empty_container(kind):
    if kind == "map[str,ref]":
        return z3.K(z3.StringSort(), NULL)
    if kind in ("set[ref]", "set[key]"):
        return z3.K(z3.IntSort(), z3.BoolVal(False))
    if kind == "map[key,ref]":
        return z3.K(z3.IntSort(), NULL)
    if kind == "set[pref]":
        return z3.Lambda([z3.Int("i!e"), z3.String("p!e")], z3.BoolVal(False))
    if kind == "seq[ref]":
        return z3.Empty(z3.SeqSort(z3.IntSort()))
    if kind == "seq[str]":
        return z3.Empty(z3.SeqSort(z3.StringSort()))
    raise KeyError(kind)


CONTAINER_KINDS = ("map[str,ref]", "set[ref]", "set[pref]", "seq[ref]", "seq[str]", "set[key]", "map[key,ref]")


class Heap:
    """field name -> z3 array (Ref -> sort).  Immutable-style: `set` returns a new Heap."""

    def __init__(self, schema, arrays=None, tag="h"):
        self.schema = schema          # field -> kind
        self.arrays = dict(arrays or {})
        self.tag = tag

    def copy(self):
        return Heap(self.schema, self.arrays, self.tag)

    def kind(self, field):
        if field.endswith("$none"):
            return "bool"
        if field in ("$alive", "$broken"):
            return "bool"
        if field == "$cls":
            return "int"
        try:
            return self.schema[field]
        except KeyError:
            raise Unsupported(f"field {field!r} not in schema")

    def arr(self, field):
        a = self.arrays.get(field)
        if a is None:
            a = z3.Const(f"{self.tag}.{field}", z3.ArraySort(Ref, kind_sort(self.kind(field))))
            self.arrays[field] = a
        return a

    def get(self, field, ref):
        a = self.arr(field)
        r = z3.Select(a, ref)
        if z3.is_app(a) and a.decl().kind() == z3.Z3_OP_STORE:
            r = z3.simplify(r)       # select-over-store at a syntactically equal index folds away
        return r

    def put(self, field, ref, val):
        self.arrays[field] = z3.Store(self.arr(field), ref, val)

    def havoc_field(self, field):
        self.arrays[field] = fresh(f"hv.{field}", z3.ArraySort(Ref, kind_sort(self.kind(field))))

    def havoc_at(self, field, ref):
        self.put(field, ref, fresh(f"hv.{field}", kind_sort(self.kind(field))))

    def havoc_all(self):
        for f in list(self.schema):
            self.havoc_field(f)
            if self.schema[f] in ("optint", "optstr"):
                self.havoc_field(f + "$none")


class State:
    def __init__(self, schema, classids):
        self.locals = {}
        self.heap = Heap(schema)
        self.pc = []                # list of z3 Bool
        self.classids = classids    # shared registry: real class -> int
        self.obligations = []       # call-site / loop obligations found on this path: (name, pc, goal)
        self.trace = []             # human-readable branch decisions
        self.ghost = {}
        self.calls = []             # (callee key, args) contracted calls made on this path
        self.allocated = []         # refs allocated on this path

    def fork(self):
        s = State.__new__(State)
        s.locals = dict(self.locals)
        s.heap = self.heap.copy()
        s.pc = list(self.pc)
        s.classids = self.classids
        s.obligations = list(self.obligations)
        s.trace = list(self.trace)
        s.ghost = dict(self.ghost)
        s.calls = list(self.calls)
        s.allocated = list(self.allocated)
        return s

    def assume(self, cond):
        c = zbool(cond)
        if z3.is_and(c):
            for ch in c.children():
                self.assume(ch)
            return
        if not z3.is_true(c):
            self.pc.append(c)

    def classid(self, cls):
        return self.classids.setdefault(cls, len(self.classids) + 1)

    def alloc(self, cls):
        r = fresh(f"new.{cls.__name__}", Ref)
        self.assume(r != NULL)
        self.assume(z3.Not(self.heap.get("$alive", r)))
        for prev in self.allocated:
            self.assume(r != prev)
        self.heap.put("$alive", r, z3.BoolVal(True))
        self.heap.put("$cls", r, z3.IntVal(self.classid(cls)))
        self.allocated.append(r)
        return SRef(r, (cls,))

    def alloc_container(self, kind):
        r = fresh("ctr", Ref)
        self.assume(r != NULL)
        self.assume(z3.Not(self.heap.get("$alive", r)))
        for prev in self.allocated:
            self.assume(r != prev)
        self.heap.put("$alive", r, z3.BoolVal(True))
        self.allocated.append(r)
        field = "$" + kind
        if field not in self.heap.schema:
            self.heap.schema[field] = kind
        self.heap.put(field, r, empty_container(kind))
        return SLoc(r, field, kind)
